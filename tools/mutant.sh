#!/bin/sh
# usage: tools/mutant.sh <patch> <ID> [quick|thorough]   apply a patch to /repo, run the check, undo the patch
P=$(readlink -f "$1"); ID=$2; TIER=${3:-quick}
cd /repo || exit 2
[ -z "$(git status --porcelain)" ] || { echo "/repo not clean"; exit 2; }
git apply "$P" || { echo "patch does not apply"; exit 2; }
trap 'cd /repo && git checkout -q -- . && git clean -fdq' EXIT INT TERM
cd /verif && ./check $ID $TIER
RC=$?
echo "mutant $(basename $(dirname $P))/$(basename $P) on $ID $TIER: exit $RC"
exit $RC
