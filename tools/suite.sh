#!/bin/sh
# usage: tools/suite.sh [dir] [extra go test flags]   — runs the unedited suite in dir (default /repo) and
# compares the passing set with BASELINE.json's stable_pass. Exit 0 iff every baseline-pass test passes.
DIR=${1:-/repo}; shift 2>/dev/null
export GOFLAGS=-mod=mod GOPROXY=off GOSUMDB=off GOTOOLCHAIN=local
OUT=$(mktemp)
(cd "$DIR" && go test -json -vet=off -count=1 -timeout 25m "$@" ./... > "$OUT" 2>&1)
python3 - "$OUT" <<'PY'
import json,sys
base=json.load(open('/root/.vp/BASELINE.json'))
want=set(base['stable_pass'])
got=set(); failed=set()
for l in open(sys.argv[1]):
    try: d=json.loads(l)
    except Exception: continue
    if d.get('Test') and d.get('Action') in('pass','fail'):
        k=d['Package']+'::'+d['Test']
        (got if d['Action']=='pass' else failed).add(k)
missing=sorted(want-got)
print("baseline_pass=%d now_pass=%d failed=%d missing_from_pass=%d"%(len(want),len(got),len(failed),len(missing)))
for m in missing[:40]: print("  MISSING",m)
extra=sorted(failed-set(base['always_fail']))
for m in extra[:40]: print("  FAILED",m)
sys.exit(1 if missing else 0)
PY
RC=$?
rm -f "$OUT"
exit $RC
