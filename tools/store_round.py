#!/usr/bin/env python3
"""usage: tools/store_round.py <seedout dir> <letter offset> — copies the verified deliveries <dir>/<ID>/{A,B} of a seeding
round to seeded/<ID>-<letter> (offset 2: A->C, B->D) and completes meta.json."""
import json, os, shutil, sys
src, off = sys.argv[1], int(sys.argv[2])
for pid in sorted(os.listdir(src)):
    for k, v in enumerate("AB"):
        d = os.path.join(src, pid, v)
        if not os.path.isfile(os.path.join(d, "patch.diff")):
            continue
        name = "%s-%s" % (pid, chr(ord("A") + off + k))
        dst = os.path.join("/verif/seeded", name)
        os.makedirs(dst, exist_ok=True)
        for f in ("patch.diff", "demo_test.go"):
            shutil.copy(os.path.join(d, f), os.path.join(dst, f))
        m = json.load(open(os.path.join(d, "meta.json")))
        m["origin"] = "round %d: written by a fresh sub-agent that was given only the text of property %s and a scratch worktree of /repo HEAD (told to stay away from the most obvious place)" % (off // 2 + 1, pid)
        m["confirmed_by_me"] = "tools/verify_seeded.sh: in a scratch worktree of /repo HEAD the patch applies and builds, the unedited suite passes with it (only the 2 baseline TestOpen failures), the demonstration fails with it and passes without it"
        m.setdefault("check", m.get("property", pid))
        json.dump(m, open(os.path.join(dst, "meta.json"), "w"), indent=1)
        print("stored", name)
