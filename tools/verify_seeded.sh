#!/bin/sh
# usage: tools/verify_seeded.sh <dir with patch.diff demo_test.go meta.json> — confirms in a scratch worktree of /repo HEAD:
#  the patch applies and builds, the unedited suite still passes (baseline), the demo fails with it and passes without it.
D=$(readlink -f "$1")
export GOFLAGS=-mod=mod GOPROXY=off GOSUMDB=off GOTOOLCHAIN=local
WT=$(mktemp -d /tmp/seedverify.XXXXXX)
git -C /repo worktree add -q --detach "$WT" HEAD || exit 2
trap 'git -C /repo worktree remove --force "$WT" >/dev/null 2>&1; rm -rf "$WT"' EXIT
cd "$WT"
cp "$D/demo_test.go" ./zz_demo_test.go
RACE=""; grep -q '"race"' "$D/meta.json" 2>/dev/null && RACE=""
timeout 600 go test -vet=off -count=1 -run 'TestDemo' . > "$WT/without.log" 2>&1; W=$?
git apply "$D/patch.diff" || { echo "RESULT $D: patch does not apply"; exit 1; }
go build ./... || { echo "RESULT $D: does not build"; exit 1; }
timeout 900 go test -vet=off -count=1 -run 'TestDemo' . > "$WT/with.log" 2>&1; X=$?
rm -f zz_demo_test.go
/verif/tools/suite.sh "$WT" > "$WT/suite.log" 2>&1; S=$?
echo "RESULT $D: demo_without_patch_exit=$W demo_with_patch_exit=$X suite_with_patch_exit=$S $(head -1 $WT/suite.log)"
[ $W -eq 0 ] && [ $X -ne 0 ] && [ $S -eq 0 ]
