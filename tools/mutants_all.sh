#!/bin/sh
# runs every stored mutant (seeded/, mutants/) against the quick check of its property in scratch copies, three at a
# time; writes mutants/RESULTS.txt. Not used by any registered command.
# The saved regression inputs are switched off (VERIF_NO_REGRESS): a detection counts only if the generated search finds it.
cd /verif
export VERIF_NO_REGRESS=1
OUT=mutants/RESULTS.txt; JOBS=$(mktemp)
for d in seeded/*/; do
  n=$(basename $d); id=${n%-*}
  [ "$n" = "C05-B" ] && id=C16
  c=$(python3 -c "import json;print(json.load(open('$d/meta.json')).get('check',''))" 2>/dev/null); [ -n "$c" ] && id=$c
  echo "$d/patch.diff $id" >> $JOBS
done
# reverts of the repairs: property from the fixed: line
for p in mutants/revert-*.patch mutants/hand-*.patch; do
  b=$(basename $p .patch)
  case $b in
    revert-e064eaa|revert-e945df3|revert-e4a7585|revert-73a6d73|revert-0122639) id=C05;;
    revert-f159660|revert-8da7e4e|revert-aee587b) id=C07;;
    revert-3a3b978|revert-c805a25|revert-ccf727f|revert-387d087|hand-readterm*|hand-peek*|hand-unreadrune*) id=C19;;
    revert-c16aa82) id=C11;; revert-18138da) id=C04;; revert-de9d3a4) id=C16;;
    revert-70dbb45|revert-4aa4e0c|revert-5ac6759|revert-5626df1) id=C10;;
    revert-d2f0951|revert-retract-trio|revert-27d5af3) id=C09;;
    revert-994ff2c|revert-e382df4|revert-d242e4d|revert-630168d|revert-0d96cc5|revert-0c21a90|revert-aac20ef|revert-ea61ebf) id=C06;;
    revert-5a68aac) id=C17;; revert-c7328a6) id=C03;; revert-aea4ea6) id=C12;; revert-3a4e688) id=C15;;
    revert-1838529) id=C13;; revert-eb700ef) id=C20;; revert-5ba2f5f) id=C18;;
    hand-atom*|hand-varcounter*) id=C14;;
    hand-bootstrap-member*|hand-bootstrap-select*) id=C16;;
    hand-bootstrap-*) id=C03;;
    *) id="";;
  esac
  [ -n "$id" ] && echo "$p $id" >> $JOBS
done
# MUTANTS_FILTER=<regex> restricts the jobs and appends to the table instead of rewriting it
if [ -n "$MUTANTS_FILTER" ]; then
  grep -E "$MUTANTS_FILTER" $JOBS > $JOBS.f; mv $JOBS.f $JOBS
  grep -v '^detected:' $OUT > $OUT.keep 2>/dev/null
  xargs -P ${MUTANTS_PAR:-3} -L 1 sh -c 'tools/mutant_wt.sh $0 $1 quick | grep MUTANT' < $JOBS >> $OUT.keep; sort -u $OUT.keep > $OUT; rm -f $OUT.keep
else
  xargs -P ${MUTANTS_PAR:-3} -L 1 sh -c 'tools/mutant_wt.sh $0 $1 quick | grep MUTANT' < $JOBS | sort > $OUT
fi
echo "detected: $(grep -c 'exit 1' $OUT)  missed: $(grep -c 'exit 0' $OUT)  n/a: $(grep -c 'exit 2' $OUT)" >> $OUT
rm -f $JOBS
tail -1 $OUT
