#!/bin/sh
# runs every quick check on the current tree; prints one line per property; exit 0 iff all exit 0
cd /verif; RC=0
for i in 01 02 03 04 05 06 07 08 09 10 11 12 13 14 15 16 17 18 19 20; do
  OUT=$(./check C$i ${1:-quick} 2>&1); E=$?
  echo "C$i exit=$E $(echo "$OUT" | grep -v KNOWN-FINDING | tail -1 | cut -c1-150)"
  [ $E -eq 0 ] || RC=1
done
exit $RC
