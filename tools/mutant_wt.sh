#!/bin/sh
# usage: tools/mutant_wt.sh <patch> <ID> [tier] — like mutant.sh but in a scratch worktree of /repo HEAD (VERIF_REPO), so
# /repo itself is not touched and several can run side by side. Evidence/replay files of the run are discarded.
P=$(readlink -f "$1"); ID=$2; TIER=${3:-quick}
WT=$(mktemp -d /tmp/mutwt.XXXXXX)
git -C /repo worktree add -q --detach "$WT" HEAD || exit 2
trap 'git -C /repo worktree remove --force "$WT" >/dev/null 2>&1; rm -rf "$WT" "$OUT"' EXIT INT TERM
(cd "$WT" && git apply "$P") || { echo "MUTANT $(basename $(dirname $P))/$(basename $P) $ID: patch does not apply"; exit 2; }
OUT=$(mktemp -d /tmp/mutout.XXXXXX)
# run from a private copy of /verif so that evidence/ and replay/ of the real tree are not overwritten
rsync -a --exclude .git --exclude replay --exclude evidence /verif/ "$OUT/"
mkdir -p "$OUT/evidence"
(cd "$OUT" && VERIF_REPO="$WT" ./check $ID $TIER > "$OUT/run.log" 2>&1); RC=$?
echo "MUTANT $(basename $(dirname $P))/$(basename $P) $ID $TIER: exit $RC $(grep -m1 'first failure' $OUT/run.log | cut -c1-160)"
exit $RC
