#!/opt/veriftools/pyvenv/bin/python3
# validates MANIFEST.json and every evidence/*.json against the given schemas
import json,sys,glob,jsonschema
ok=True
m=json.load(open('/verif/MANIFEST.json')) if glob.glob('/verif/MANIFEST.json') else None
if m is not None:
    try: jsonschema.validate(m,json.load(open('/root/.vp/MANIFEST.schema.json'))); print("MANIFEST ok:",len(m['checks']),"checks")
    except Exception as e: ok=False; print("MANIFEST INVALID",e)
es=json.load(open('/root/.vp/EVIDENCE.schema.json'))
for f in sorted(glob.glob('/verif/evidence/*.json')):
    try: jsonschema.validate(json.load(open(f)),es); print("ok",f)
    except Exception as e: ok=False; print("INVALID",f,str(e)[:300])
sys.exit(0 if ok else 1)
