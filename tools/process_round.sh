#!/bin/sh
# usage: tools/process_round.sh <seedout dir> <ID>... — verifies the delivered changes of a seeding round and runs the
# quick check of the property against each in scratch copies. Prints one line per change.
R=$1; shift
for id in "$@"; do
  for v in A B; do
    d=$R/$id/$v
    [ -f $d/patch.diff ] || { echo "$id-$v: no patch delivered"; continue; }
    V=$(/verif/tools/verify_seeded.sh $d 2>&1 | grep RESULT | sed 's/.*: //')
    M=$(/verif/tools/mutant_wt.sh $d/patch.diff $id quick 2>&1 | grep MUTANT | sed 's/^MUTANT [^ ]* //')
    echo "$id-$v: [$V] => $M"
  done
done
