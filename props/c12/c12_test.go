package c12

import (
	"bytes"
	"context"
	"errors"
	"fmt"
	"runtime"
	"strings"
	"sync"
	"testing"
	"time"

	"github.com/ichiban/prolog"
	"pgregory.net/rapid"

	"verif/internal/h"
)

type kind struct {
	Name    string
	Query   string
	Answers int  // answers before the end; -1 = infinite
	Errs    bool // ends with an error instead of plain exhaustion
	XIsIdx  bool // answer k binds X to k
}

// every query writes one character per solution (before the solution is delivered), so the
// output length counts the goals that ran
var kinds = []kind{
	{"0", "fail.", 0, false, false},
	{"1", "X = 1, Y = odd, put_char(x).", 1, false, true},
	{"2", "member(X-Y, [1-odd,2-_]), put_char(x).", 2, false, true},
	{"3", "member(X-Y, [1-odd,2-_,3-odd]), put_char(x).", 3, false, true},
	{"e0", "throw(oops).", 0, true, false},
	{"e1", "member(X-Y, [1-odd,2-_]), (X == 2 -> throw(oops) ; true), put_char(x).", 1, true, true},
	{"e2", "member(X-Y, [1-odd,2-_,3-_]), (X == 3 -> throw(oops) ; true), put_char(x).", 2, true, true},
	{"repeat", "repeat, put_char(x).", -1, false, false},
	{"between", "between(1, 1000000000, X), (X mod 2 =:= 1 -> Y = odd ; true), put_char(x).", -1, false, true},
	// a search several thousand frames deep between the answers, and before the error
	{"deep3", "member(X-Y, [1-odd,2-_,3-odd]), down(5000), put_char(x).", 3, false, true},
	{"deep_e2", "member(X-Y, [1-odd,2-_,3-_]), down(3000), (X == 3 -> throw(oops) ; true), put_char(x).", 2, true, true},
}

// Case: one history (ops over N S E C) on one query kind; or two histories interleaved on two
// Solutions of one interpreter (Order[i] says which iterator performs the next op).
type Case struct {
	Kind  int    `json:"kind"`
	Ops   string `json:"ops"`
	Kind2 int    `json:"kind2,omitempty"`
	Ops2  string `json:"ops2,omitempty"`
	Order []int  `json:"order,omitempty"`
}

func (c Case) String() string {
	if c.Ops2 == "" {
		return fmt.Sprintf("query %q, calls %s", kinds[c.Kind].Query, c.Ops)
	}
	return fmt.Sprintf("A: query %q calls %s; B: query %q calls %s; interleaving %v", kinds[c.Kind].Query, c.Ops, kinds[c.Kind2].Query, c.Ops2, c.Order)
}

const callTimeout = 45 * time.Second

func timed(f func()) bool {
	done := make(chan struct{})
	go func() { f(); close(done) }()
	select {
	case <-done:
		return true
	case <-time.After(callTimeout):
		return false
	}
}

type syncBuf struct {
	mu sync.Mutex
	b  strings.Builder
}

func (s *syncBuf) Write(p []byte) (int, error) {
	s.mu.Lock()
	defer s.mu.Unlock()
	return s.b.Write(p)
}
func (s *syncBuf) Len() int {
	s.mu.Lock()
	defer s.mu.Unlock()
	return s.b.Len()
}

// model of one iterator
type model struct {
	k         kind
	idx       int
	ended     bool // Next returned false because of exhaustion or error
	failed    bool
	closed    bool
	cancelled bool // the context given to QueryContext has been cancelled
	lastTrue  bool // the most recent Next returned true and nothing closed since
	ranGoals  int  // characters this iterator must have written so far
}

type iter struct {
	m      model
	cancel context.CancelFunc
	sols   *prolog.Solutions
	// kept is the destination a caller declares once outside its loop (var s struct{...}; for sols.Next() { sols.Scan(&s) })
	kept struct{ X, Y interface{} }
}

// wantY: in the queries whose X counts the answers, Y is the atom odd in odd answers and unbound in even ones.
func wantY(idx int) interface{} {
	if idx%2 == 1 {
		return "odd"
	}
	return nil
}

// step performs one op on the iterator and checks it against the model.
func (it *iter) step(op byte) error {
	m := &it.m
	switch op {
	case 'N':
		var got bool
		if !timed(func() { got = it.sols.Next() }) {
			return fmt.Errorf("Next blocked (no return within %v) in state idx=%d ended=%v closed=%v", callTimeout, m.idx, m.ended, m.closed)
		}
		want := !m.closed && !m.ended && !m.cancelled && (m.k.Answers < 0 || m.idx < m.k.Answers)
		if want {
			m.idx++
			m.ranGoals = m.idx
		} else if !m.closed && !m.ended {
			m.ended = true
			m.failed = m.k.Errs || m.cancelled // a cancelled search ends with the context's error before any further goal runs
		}
		m.lastTrue = got
		if got != want {
			return fmt.Errorf("Next returned %v, expected %v (answers delivered %d of %d, ended %v, closed %v)", got, want, m.idx, m.k.Answers, m.ended, m.closed)
		}
	case 'S':
		var dst struct{ X, Y interface{} }
		var err, err2 error
		if !timed(func() { err = it.sols.Scan(&dst); err2 = it.sols.Scan(&it.kept) }) {
			return fmt.Errorf("Scan blocked")
		}
		if m.lastTrue && !m.closed && m.k.XIsIdx {
			if err != nil || err2 != nil {
				return fmt.Errorf("Scan after a successful Next failed: %v, %v", err, err2)
			}
			if x, ok := dst.X.(int); !ok || x != m.idx || dst.Y != wantY(m.idx) {
				return fmt.Errorf("Scan into a fresh destination reports X = %v, Y = %v, the most recent answer is X = %d, Y = %v (nil: unbound)", dst.X, dst.Y, m.idx, wantY(m.idx))
			}
			if x, ok := it.kept.X.(int); !ok || x != m.idx || it.kept.Y != wantY(m.idx) {
				return fmt.Errorf("Scan into the destination used for the earlier answers reports X = %v, Y = %v, the most recent answer is X = %d, Y = %v (nil: unbound)", it.kept.X, it.kept.Y, m.idx, wantY(m.idx))
			}
		}
	case 'E':
		var err error
		if !timed(func() { err = it.sols.Err() }) {
			return fmt.Errorf("Err blocked")
		}
		if m.closed && m.cancelled && !m.ended {
			// Close and the cancellation both end the search; which of the two the background goroutine meets
			// first is a race the property does not settle: Err may or may not be the context's error
			break
		}
		if m.failed && err == nil {
			return fmt.Errorf("Err is nil after the query ended with an error")
		}
		if !m.failed && err != nil {
			return fmt.Errorf("Err = %v although the query has not ended with an error (idx=%d ended=%v closed=%v)", err, m.idx, m.ended, m.closed)
		}
	case 'X':
		// the caller cancels the context it gave to QueryContext, and waits a moment
		it.cancel()
		time.Sleep(2 * time.Millisecond)
		m.cancelled = true
	case 'C':
		var err error
		if !timed(func() { err = it.sols.Close() }) {
			return fmt.Errorf("Close blocked")
		}
		if m.closed != errors.Is(err, prolog.ErrClosed) || (!m.closed && err != nil) {
			return fmt.Errorf("Close returned %v (closed before: %v)", err, m.closed)
		}
		m.closed = true
		m.lastTrue = false
	}
	return nil
}

var baseGoroutines int

func goroutinesBack() (int, bool) {
	deadline := time.Now().Add(10 * time.Second)
	for {
		n := runtime.NumGoroutine()
		if n <= baseGoroutines || baseGoroutines == 0 {
			return n, true
		}
		if time.Now().After(deadline) {
			return n, false
		}
		time.Sleep(200 * time.Microsecond)
	}
}

// outputSettles waits for the output to reach want (the writer is another goroutine) and then
// checks it does not grow further.
func outputSettles(out *syncBuf, want int) error {
	deadline := time.Now().Add(10 * time.Second)
	for out.Len() < want && time.Now().Before(deadline) {
		time.Sleep(50 * time.Microsecond)
	}
	if got := out.Len(); got != want {
		return fmt.Errorf("goals ran %d times according to the output, expected %d", got, want)
	}
	return nil
}

func check(c Case) error {
	out := &syncBuf{}
	p := prolog.New(strings.NewReader(""), out)
	if err := p.Exec("down(0).\ndown(N) :- N > 0, M is N - 1, down(M).\n"); err != nil {
		return fmt.Errorf("infrastructure: %v", err)
	}
	open := func(k int) (*iter, error) {
		ctx, cancel := context.WithCancel(context.Background())
		sols, err := p.QueryContext(ctx, kinds[k].Query)
		if err != nil {
			cancel()
			return nil, fmt.Errorf("infrastructure: %v", err)
		}
		return &iter{m: model{k: kinds[k]}, sols: sols, cancel: cancel}, nil
	}
	a, err := open(c.Kind)
	if err != nil {
		return err
	}
	its := []*iter{a}
	ops := []string{c.Ops}
	if c.Ops2 != "" {
		b, err := open(c.Kind2)
		if err != nil {
			return err
		}
		its, ops = append(its, b), append(ops, c.Ops2)
	}
	pos := make([]int, len(its))
	order := c.Order
	if len(its) == 1 {
		order = make([]int, len(c.Ops))
	}
	for _, w := range order {
		if w >= len(its) || pos[w] >= len(ops[w]) {
			continue
		}
		op := ops[w][pos[w]]
		pos[w]++
		if err := its[w].step(op); err != nil {
			return fmt.Errorf("iterator %d, call %d (%c): %v", w, pos[w], op, err)
		}
		// no goal runs ahead of the consumer and none runs after Close: the output counts the goals run.
		// An iterator that ended with an error after k answers has also run the throwing goal (no output).
		want := 0
		for _, it := range its {
			want += it.m.ranGoals
		}
		if err := outputSettles(out, want); err != nil {
			return fmt.Errorf("after iterator %d call %d (%c): %v", w, pos[w], op, err)
		}
	}
	for _, it := range its {
		if !timed(func() { _ = it.sols.Close() }) {
			return fmt.Errorf("final Close blocked")
		}
		it.cancel()
	}
	want := 0
	for _, it := range its {
		want += it.m.ranGoals
	}
	time.Sleep(20 * time.Microsecond)
	if err := outputSettles(out, want); err != nil {
		return fmt.Errorf("after the final Close: %v", err)
	}
	if n, ok := goroutinesBack(); !ok {
		return fmt.Errorf("%d goroutines are still alive 10 s after Close (%d before the history): the query goroutine did not terminate", n, baseGoroutines)
	}
	return nil
}

func nontrivial(ops string, k kind) bool {
	// a call after exhaustion / error / Close
	n, closed, ended := 0, false, false
	for _, o := range ops {
		if closed || ended {
			return true
		}
		switch o {
		case 'N':
			if k.Answers >= 0 && n >= k.Answers {
				ended = true
			}
			n++
		case 'C':
			closed = true
		}
	}
	return false
}

func init() { h.Reg("c12", check) }

func TestProp(t *testing.T) {
	r := h.Start(t, "C12")
	defer r.Finish(t)
	maxLen := r.Pick(5, 7)
	r.Rule(fmt.Sprintf("all call histories over {Next, Scan, Err, Close, X = cancel the context given to QueryContext (at most once)} up to length %d x 11 query kinds (0, 1, 2, 3 answers; an error after 0, 1, 2 answers; two infinite queries; 3 answers / an error after 2 answers with a recursion 3000-5000 frames deep in between), enumerated completely; plus rapid-sampled pairs of histories on two Solutions of one interpreter merged in a generated interleaving. Every query writes one character per solution, so the output counts the goals that ran. Oracle: a model (answers delivered, ended, failed, closed): Next true exactly for answers 1..k in order and false afterwards (after exhaustion, after an error, after Close, after the context was cancelled - then Err is non-nil and no further goal has run); Scan after a true Next yields that answer (X counts the answers, Y is bound in odd answers only), both into a fresh destination and into one destination kept across the whole history; Err non-nil exactly after the query ended with its error; first Close nil, later ones ErrClosed; after every call the number of goals run equals the number of answers delivered (nothing runs ahead, nothing after Close); after the history and Close the goroutine count returns to its initial value (polled up to 10 s). Every call runs under a %v watchdog: a call that does not return is the violation 'blocked'. Non-trivial: the history makes a call after exhaustion, an error or Close. Distinct by (kind, history).", maxLen, callTimeout),
		"calls take microseconds; the watchdog is orders of magnitude above scheduling noise", "all calls are made from one goroutine at a time")
	r.Regress(t)
	if r.Failed() {
		return
	}
	// warm up, then measure the goroutine baseline
	_ = check(Case{Kind: 3, Ops: "NNNNC"})
	time.Sleep(5 * time.Millisecond)
	baseGoroutines = runtime.NumGoroutine()

	idx := 0
	var rec func(cur []byte)
	var failed bool
	rec = func(cur []byte) {
		if failed {
			return
		}
		if len(cur) > 0 {
			for k := range kinds {
				idx++
				if !r.Mine(idx) {
					continue
				}
				c := Case{Kind: k, Ops: string(cur)}
				r.Eval(1)
				if nontrivial(c.Ops, kinds[k]) {
					r.NonTrivial(h.Hash(c), kinds[k].Name, func() any { return c.String() })
				}
				if err := check(c); err != nil {
					failed = true
					r.Fail(t, "c12", c, err)
				}
			}
		}
		if len(cur) == maxLen {
			return
		}
		for _, o := range []byte("NSECX") {
			if o == 'X' && bytes.IndexByte(cur, 'X') >= 0 {
				continue // (the context is cancelled at most once per history)
			}
			rec(append(cur, o))
		}
	}
	rec(nil)
	r.Exhaustive(fmt.Sprintf("all call histories up to length %d over 9 query kinds", maxLen))
	r.LabelN("enumerated_histories", idx/r.NShards())

	opsGen := rapid.StringOfN(rapid.SampledFrom([]rune("NNNNSSEECX")), 1, 8, -1)
	first := true
	r.Rapid(t, "interleaved", r.Pick(4000, 200000), func(t *rapid.T) {
		if first { // the subtest runs in its own goroutine while the parent waits: re-measure the baseline
			first = false
			time.Sleep(5 * time.Millisecond)
			baseGoroutines = runtime.NumGoroutine()
		}
		c := Case{
			Kind: rapid.IntRange(0, len(kinds)-1).Draw(t, "kindA"), Ops: opsGen.Draw(t, "opsA"),
			Kind2: rapid.IntRange(0, len(kinds)-1).Draw(t, "kindB"), Ops2: opsGen.Draw(t, "opsB"),
		}
		c.Order = rapid.SliceOfN(rapid.IntRange(0, 1), len(c.Ops)+len(c.Ops2), len(c.Ops)+len(c.Ops2)+4).Draw(t, "order")
		r.Label("sampled_interleaving")
		r.Eval(1)
		if nontrivial(c.Ops, kinds[c.Kind]) || nontrivial(c.Ops2, kinds[c.Kind2]) {
			r.NonTrivial(h.Hash(c), "pair", func() any { return c.String() })
		}
		if err := check(c); err != nil {
			r.Fail(t, "c12", c, err)
		}
	})
}

func TestReplay(t *testing.T) {
	_ = check(Case{Kind: 3, Ops: "NNNNC"}) // warm up (the first check sees an unset baseline)
	time.Sleep(5 * time.Millisecond)
	baseGoroutines = runtime.NumGoroutine()
	h.Replay(t, "C12")
}
func TestKnown(t *testing.T) { h.KnownRepro(t, "C12") }
