package c09

import (
	"fmt"
	"strings"
	"testing"

	"pgregory.net/rapid"

	"verif/internal/diff"
	"verif/internal/gen"
	"verif/internal/h"
	"verif/internal/ref"
	"verif/internal/rt"
	"verif/internal/sut"
)

// Case: initial dynamic clauses for d/1 and e/2 and a history of queries, each run to exhaustion.
type Case struct {
	Initial []*rt.Term `json:"initial"`
	Steps   []*rt.Term `json:"steps"`
}

func (c Case) String() string {
	var b strings.Builder
	b.WriteString(":- dynamic(d/1). :- dynamic(e/2). :- dynamic(z/0).\n")
	for _, cl := range c.Initial {
		b.WriteString(gen.ClauseText(cl) + "\n")
	}
	for _, s := range c.Steps {
		b.WriteString("?- " + s.Text(rt.VarNames(s.Vars(nil))) + ".\n")
	}
	return b.String()
}

type gg struct {
	t     *rapid.T
	nvars int
}

func (x *gg) n(lo, hi int, l string) int {
	if hi <= lo {
		return lo
	}
	return lo + int(rapid.Uint64().Draw(x.t, l)%uint64(hi-lo+1))
}
func (x *gg) p(pc int, l string) bool { return int(rapid.Uint64().Draw(x.t, l)%100) < pc }
func (x *gg) v() *rt.Term {
	if x.nvars == 0 || (x.nvars < 4 && x.p(40, "nv")) {
		x.nvars++
		return rt.V(int64(x.nvars - 1))
	}
	return rt.V(int64(x.n(0, x.nvars-1, "v")))
}

// val: a small domain so that duplicates and matches are frequent
func (x *gg) val(vars bool) *rt.Term {
	if x.p(12, "listval") {
		// lists over a common prefix: open ones (the tail variable is usually shared with another argument
		// or the body), and closed ones that match them
		one, two := rt.I(1), rt.I(2)
		switch k := x.n(0, 5, "lv"); {
		case k < 2 && vars:
			return rt.List([]*rt.Term{one, two}, x.v())
		case k < 3:
			return rt.List([]*rt.Term{one, two}, nil)
		case k < 4:
			return rt.List([]*rt.Term{one, two, rt.I(3)}, nil)
		case k < 5:
			return rt.List([]*rt.Term{rt.I(3)}, nil)
		default:
			return rt.A("[]")
		}
	}
	switch k := x.n(0, 9, "val"); {
	case k < 5:
		return rt.I(int64(x.n(1, 3, "i")))
	case k < 6:
		return rt.A("a")
	case k < 8 && vars:
		return x.v()
	case k < 9 && vars:
		return rt.C("f", x.v())
	default:
		return rt.I(int64(x.n(1, 2, "j")))
	}
}

func (x *gg) head(vars bool) *rt.Term {
	if x.n(0, 6, "z") == 6 { // a predicate without arguments: all its facts are the same term
		return rt.A("z")
	}
	if x.p(70, "d") {
		return rt.C("d", x.val(vars))
	}
	return rt.C("e", x.val(vars), x.val(vars))
}

// clauseTerm: a fact or a rule (bodies may update the database of the predicate being enumerated)
func (x *gg) clauseTerm() *rt.Term {
	h := x.head(true)
	if x.p(75, "fact") {
		return h
	}
	bodies := []func() *rt.Term{
		func() *rt.Term { return rt.C("e", x.v(), x.v()) },
		func() *rt.Term { return rt.C("d", x.v()) },
		func() *rt.Term { return rt.C("assertz", rt.C("d", x.val(false))) },
		func() *rt.Term { return rt.C("retract", rt.C("d", x.val(true))) },
		func() *rt.Term { return rt.C("=", x.v(), x.val(false)) },
		func() *rt.Term { return rt.C(",", rt.C("e", x.v(), x.v()), rt.C("asserta", rt.C("d", x.val(false)))) },
		// a body that is a disjunction: one clause for clause/2 and retract/1, however it is compiled
		func() *rt.Term { v := x.v(); return rt.C(";", rt.C("=", v, x.val(false)), rt.C("=", v, x.val(false))) },
		func() *rt.Term { return rt.C(";", rt.C("d", x.v()), rt.C(";", rt.C("e", x.v(), x.v()), rt.A("true"))) },
		// a rule that looks like a fact: retract(Head) and clause(Head, true) take it like one
		func() *rt.Term { return rt.A("true") },
		// alternatives over a head variable: their order is visible in the answers wherever the clause was inserted
		func() *rt.Term {
			v := x.v()
			if hv := h.Vars(nil); len(hv) > 0 {
				v = rt.V(hv[0])
			}
			return rt.C(";", rt.C("=", v, rt.I(1)), rt.C(";", rt.C("=", v, rt.I(2)), rt.C("=", v, rt.I(3))))
		},
	}
	return rt.C(":-", h, bodies[x.n(0, len(bodies)-1, "body")]())
}

func (x *gg) goal() *rt.Term {
	if x.n(0, 13, "openretract") == 13 {
		// an open retract/1 whose further snapshot clauses are removed by a second retract/1, then a new clause of the
		// same form is added: the outer retract must not take the new clause for one of its own
		h := x.head(false)
		return gen.Conj([]*rt.Term{rt.C("retract", h), rt.C("retract", rt.C(":-", h, x.v())), rt.C([]string{"asserta", "assertz"}[x.n(0, 1, "az")], h)})
	}
	switch k := x.n(0, 19, "goal"); {
	case k < 4:
		return x.head(true) // call
	case k < 7:
		return rt.C("retract", x.head(true))
	case k < 8:
		return rt.C("retract", rt.C(":-", x.head(true), x.v()))
	case k < 10:
		return rt.C("assertz", x.clauseTerm())
	case k < 12:
		return rt.C("asserta", x.clauseTerm())
	case k < 13:
		return rt.C("retractall", x.head(true))
	case k < 15:
		return rt.C("clause", x.head(true), x.v())
	case k < 16:
		// the same term instance asserted twice
		tv := x.v()
		return gen.Conj([]*rt.Term{rt.C("=", tv, x.head(false)), rt.C("assertz", tv), rt.C("assertz", tv)})
	case k < 17:
		// bind a variable of an asserted clause after the assert (the stored clause must not follow)
		v := x.v()
		return gen.Conj([]*rt.Term{rt.C("assertz", rt.C("d", v)), rt.C("=", v, x.val(false))})
	case k < 18:
		return rt.C("=", x.v(), x.val(false))
	case k < 19:
		return rt.C("\\==", x.v(), x.val(false))
	default:
		return rt.C("findall", x.v(), rt.C("d", x.v()), x.v())
	}
}

func genCase() *rapid.Generator[Case] {
	return rapid.Custom(func(t *rapid.T) Case {
		x := &gg{t: t}
		var c Case
		for i, n := 0, x.n(0, 6, "ninit"); i < n; i++ {
			x.nvars = 0
			c.Initial = append(c.Initial, x.clauseTerm())
		}
		for i, n := 0, x.n(1, 6, "nsteps"); i < n; i++ {
			x.nvars = 0
			if x.p(4, "abolish") {
				c.Steps = append(c.Steps, rt.C("abolish", rt.C("/", rt.A("d"), rt.I(1))))
				continue
			}
			gs := make([]*rt.Term, x.n(1, 4, "ngoals"))
			for j := range gs {
				gs[j] = x.goal()
			}
			if x.p(45, "failloop") {
				gs = append(gs, rt.A("fail"))
			}
			c.Steps = append(c.Steps, gen.Conj(gs))
		}
		return c
	})
}

type stats struct {
	openUpdates int
	steps       int
}

func listingQuery(name string, arity int) (string, *rt.Term) {
	args := make([]*rt.Term, arity)
	for i := range args {
		args[i] = rt.V(int64(i))
	}
	h := rt.C(name, args...)
	if arity == 0 {
		h = rt.A(name)
	}
	q := rt.C("findall", rt.C(":-", h, rt.V(10)), rt.C("clause", h, rt.V(10)), rt.V(11))
	return q.Text(map[int64]string{0: "A0", 1: "A1", 10: "B", 11: "L"}) + ".", h
}

// runHistory executes the history on both sides under one retract policy.
func runHistory(c Case, skipErased bool) (st stats, discard string, err error) {
	m := ref.NewMachine(3000, 300000)
	m.SkipErased = skipErased
	m.Declare("d", 1)
	m.Declare("e", 2)
	m.Declare("z", 0)
	if e := m.Consult(groupByPred(c.Initial)); e != nil {
		return st, "budget", nil
	}
	i := sut.New()
	var b strings.Builder
	b.WriteString(":- dynamic(d/1).\n:- dynamic(e/2).\n:- dynamic(z/0).\n")
	for _, cl := range groupByPred(c.Initial) {
		b.WriteString(gen.ClauseText(cl) + "\n")
	}
	if e := i.Exec(b.String(), 500000); e != nil {
		return st, "", fmt.Errorf("loading the initial clauses failed: %s", e)
	}
	for k, step := range c.Steps {
		m.ResetBudget()
		ids := step.Vars(nil)
		rr := m.Solve(step, ids, 30)
		if d := rr.Discard(); d != "" {
			return st, d, nil
		}
		if rr.Truncated {
			return st, "too many answers", nil
		}
		st.steps++
		names := make([]string, len(ids))
		nm := map[int64]string{}
		for j, id := range ids {
			names[j] = fmt.Sprintf("Q%d", id)
			nm[id] = names[j]
		}
		got := i.Query(step.Text(nm)+".", names, 30, rr.Stats.RealBudget())
		if e := diff.Compare(rr, got, false); e != nil {
			return st, "", fmt.Errorf("step %d (%s): %v", k+1, step.Text(nm), e)
		}
		// full listing of every predicate after the step
		for _, pr := range []struct {
			n string
			a int
		}{{"d", 1}, {"e", 2}, {"z", 0}} {
			want, exists := m.Listing(pr.n, pr.a)
			q, _ := listingQuery(pr.n, pr.a)
			lr := i.Query(q, []string{"L"}, 1, 200000)
			if lr.Err != nil || len(lr.Answers) != 1 {
				return st, "", fmt.Errorf("after step %d: listing %s/%d failed: %v", k+1, pr.n, pr.a, lr.Err)
			}
			es, _ := lr.Answers[0][0].Unlist()
			if !exists {
				want = nil
			}
			if len(es) != len(want) {
				return st, "", fmt.Errorf("after step %d (%s): %s/%d has %d clauses %s, the reference has %d %s", k+1, step.Text(nm), pr.n, pr.a, len(es), rt.Strings(es), len(want), rt.Strings(want))
			}
			for j := range es {
				if !rt.Variant(es[j], want[j]) {
					return st, "", fmt.Errorf("after step %d (%s): clause %d of %s/%d is %s, the reference has %s (full: %s vs %s)", k+1, step.Text(nm), j+1, pr.n, pr.a, es[j], want[j], rt.Strings(es), rt.Strings(want))
				}
			}
		}
		st.openUpdates = m.Stats.DbUpdatesOpen
	}
	return st, "", nil
}

func groupByPred(cs []*rt.Term) []*rt.Term {
	p := &gen.Program{Clauses: cs}
	return p.Grouped()
}

// check accepts the real run if it equals the reference under one retract policy for the whole history.
func check(c Case) (stats, string, error) {
	st, d, err := runHistory(c, false)
	if err != nil {
		st2, d2, err2 := runHistory(c, true)
		if err2 == nil && d2 == "" {
			return st2, "", nil
		}
	}
	return st, d, err
}

func init() {
	h.Reg("c09", func(c Case) error { _, _, err := check(c); return err })
}

func TestProp(t *testing.T) {
	r := h.Start(t, "C09")
	defer r.Finish(t)
	r.Rule("rapid-generated histories over the dynamic predicates d/1 and e/2: 0-6 initial clauses (duplicates, clauses with variables, rules whose bodies assert/retract on the predicate being enumerated) and 1-6 steps; a step is one query run to exhaustion: a conjunction of 1-4 goals drawn from {call, retract (fact and Head:-Body forms), asserta, assertz (facts and rules), retractall, clause/2, the same term instance asserted twice, binding a clause variable after the assert, tests, findall}, in 45% of the steps closed by fail (failure-driven loop), so updates happen while calls/retracts on the same predicate are open for backtracking; occasionally abolish. Oracle: the reference database (unique clause identities, per-call snapshots, retract iterating its call-time snapshot and removing by identity). Compared after every step: the answer sequence of the step and the full listing of both predicates through clause/2. For retract backtracking onto a snapshot clause that someone else removed, both readings (skip / succeed without removing) are accepted, consistently for a whole history. Non-trivial: an update to a predicate while a call, retract or clause/2 on it had untried alternatives. Distinct by case.",
		"the reference database model (DESIGN.md 2.3.1)")
	if r.Shard() == 0 {
		if err := diff.OracleSelfTest(); err != nil {
			t.Fatalf("%v", err)
		}
		r.LabelN("oracle_self_test_examples", ref.NExamples())
	}
	r.Regress(t)
	if r.Failed() {
		return
	}
	r.Rapid(t, "histories", r.Pick(30000, 1200000), func(t *rapid.T) {
		c := genCase().Draw(t, "case")
		st, d, err := check(c)
		r.Label("sampled")
		if d != "" {
			r.Discard(d)
			return
		}
		r.Eval(st.steps)
		if st.openUpdates > 0 {
			r.Label("update_while_open")
			r.NonTrivial(h.Hash(c), "c09", func() any { return c.String() })
		}
		if err != nil {
			r.Fail(t, "c09", c, err)
		}
	})
}

func TestReplay(t *testing.T) { h.Replay(t, "C09") }
func TestKnown(t *testing.T)  { h.KnownRepro(t, "C09") }
