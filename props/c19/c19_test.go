package c19

import (
	"bytes"
	"fmt"
	"os"
	"path/filepath"
	"strings"
	"testing"
	"testing/iotest"
	"unicode/utf8"

	"github.com/ichiban/prolog/engine"
	"pgregory.net/rapid"

	"verif/internal/h"
	"verif/internal/rt"
	"verif/internal/sut"
)

// Case "in": a source text, a stream kind, an eof_action and operation sequences grouped into
// queries (each query is one conjunction). Case "out": output operations on a sink.
type Case struct {
	Kind    string     `json:"kind"` // in | out
	Src     string     `json:"src"`
	Stream  string     `json:"stream"` // file | strings | onebyte | dataerr | half
	Binary  bool       `json:"binary,omitempty"`
	Eof     string     `json:"eof,omitempty"` // error | eof_code | reset (file streams only; host streams are reset)
	Queries [][]string `json:"queries"`       // input: get peek read ateos pos eos ; output: see outOps
	// Pad spaces are put in front of Src and Skip of them are consumed by a loop of get_char / get_byte before the
	// operations start, so that these work around a chosen offset (the streams buffer 4096 bytes)
	Pad  int `json:"pad,omitempty"`
	Skip int `json:"skip,omitempty"`
	// Stream "grow": a host reader that reports the end when it is drained and delivers again once the host has
	// appended to it; Grow is appended before query number GrowAt
	Grow   string `json:"grow,omitempty"`
	GrowAt int    `json:"grow_at,omitempty"`
}

// growReader reads from a buffer the host may append to at any time.
type growReader struct{ buf bytes.Buffer }

func (g *growReader) Read(p []byte) (int, error) { return g.buf.Read(p) }

func (c Case) String() string {
	pad := ""
	if c.Pad > 0 {
		pad = fmt.Sprintf(" (behind %d spaces of which %d are consumed first)", c.Pad, c.Skip)
	}
	return fmt.Sprintf("%s stream=%s binary=%v eof_action=%s src=%q%s queries=%v", c.Kind, c.Stream, c.Binary, c.Eof, c.Src, pad, c.Queries)
}

// ---- cursor model ---------------------------------------------------------------------------------------

type model struct {
	src           []byte
	cur           int
	delivered     bool // end_of_file / -1 was delivered by a consuming read
	peekedEOF     bool // a peek delivered end_of_file since the last consuming read
	eof           string
	justDelivered bool // the most recent read/peek operation was the read that delivered end_of_file
	grew          bool // input has arrived since the last read / peek: the stream cannot know yet
	broken        bool // a get_char met input that is no character: where the cursor is afterwards is not modelled
}

const (
	valEOF  = "end_of_file"
	errPast = "ERR:past_end_of_stream"
	errRepr = "ERR:representation_error(character)"
)

// atEnd gives the acceptable outcomes of a read/peek at the end of the source.
func (m *model) atEnd(peek bool) []string {
	first := !m.delivered
	defer func() { m.justDelivered = first && m.delivered }()
	if m.delivered {
		if m.eof == "error" {
			return []string{errPast}
		}
		return []string{valEOF} // eof_code, and reset on a source that stays exhausted
	}
	// a peek that showed end_of_file left the cursor where it was (ISO 8.12.2, 8.13.2: the stream position is
	// unchanged): the next consuming read is still the one that delivers end_of_file, whatever the eof_action
	if peek {
		m.peekedEOF = true
	} else {
		m.delivered = true
	}
	return []string{valEOF}
}

func (m *model) char(peek bool) []string {
	if m.cur >= len(m.src) {
		return m.atEnd(peek)
	}
	r, sz := utf8.DecodeRune(m.src[m.cur:])
	if r == utf8.RuneError {
		// an invalid byte or a literal U+FFFD: no character (representation_error); a peek leaves it where it is
		if !peek {
			m.cur += sz
			m.peekedEOF = false
			m.broken = true
		}
		return []string{errRepr, "c:\uFFFD"} // (a system that delivers the replacement character instead is not faulted)
	}
	if !peek {
		m.cur += sz
		m.peekedEOF = false
	}
	return []string{"c:" + string(r)}
}

func (m *model) byteOp(peek bool) []string {
	if m.cur >= len(m.src) {
		return m.atEnd(peek)
	}
	b := m.src[m.cur]
	if !peek {
		m.cur++
		m.peekedEOF = false
	}
	return []string{fmt.Sprintf("b:%d", b)}
}

func (m *model) skipLayout(i int) int {
	for i < len(m.src) {
		c := m.src[i]
		switch {
		case c == ' ' || c == '\n' || c == '\t':
			i++
		case c == '%':
			for i < len(m.src) && m.src[i] != '\n' {
				i++
			}
		default:
			return i
		}
	}
	return i
}

func alnum(c byte) bool { return c >= 'a' && c <= 'z' || c >= '0' && c <= '9' }

// readTerm: the next term if the text from the cursor is within the modelled syntax
// (layout/comments, a lower-case alphanumeric atom or an integer, an end '.', then layout/comment/EOF).
func (m *model) readTerm() ([]string, bool) {
	i := m.skipLayout(m.cur)
	if i >= len(m.src) {
		m.cur = len(m.src)
		return m.atEnd(false), true
	}
	j := i
	for j < len(m.src) && alnum(m.src[j]) {
		j++
	}
	if j == i || j >= len(m.src) || m.src[j] != '.' {
		return nil, false
	}
	if j+1 < len(m.src) && !strings.ContainsRune(" \n\t%", rune(m.src[j+1])) {
		return nil, false
	}
	tok := string(m.src[i:j])
	var out string
	if tok[0] >= '0' && tok[0] <= '9' {
		for k := 0; k < len(tok); k++ {
			if tok[k] < '0' || tok[k] > '9' {
				return nil, false
			}
		}
		if len(tok) > 15 {
			return nil, false
		}
		var n int64
		fmt.Sscan(tok, &n)
		out = fmt.Sprintf("i:%d", n)
	} else {
		out = "a:" + tok
	}
	m.cur = j + 1
	m.peekedEOF = false
	return []string{out}, true
}

// eos gives the acceptable values of the end_of_stream property.
func (m *model) eos() []string {
	if m.grew {
		return []string{"not", "at", "past"}
	}
	switch {
	case m.cur < len(m.src):
		return []string{"not"}
	case m.delivered && m.eof == "reset" && !m.justDelivered:
		return []string{"not", "at", "past"} // the stream was reset by a later operation: it re-reads its (exhausted) source
	case m.delivered:
		return []string{"past"}
	case m.peekedEOF:
		return []string{"not", "at", "past"}
	}
	return []string{"not", "at"}
}

// ---- running --------------------------------------------------------------------------------------------

// streamGoal binds Var to the stream term (SetUserInput leaves the replaced stream registered under the
// same alias, so the host stream is taken from current_input/1).
func streamGoal(alias, v string) string {
	if alias == "user_input" {
		return "current_input(" + v + ")"
	}
	return "stream_property(" + v + ", alias(" + alias + "))"
}

func observe(t *rt.Term) string {
	switch t.K {
	case rt.Atom:
		if t.S == valEOF {
			return valEOF
		}
		if len([]rune(t.S)) == 1 {
			return "c:" + t.S + "|a:" + t.S
		}
		return "a:" + t.S
	case rt.Int:
		if t.I == -1 {
			return valEOF + "|i:-1"
		}
		return fmt.Sprintf("b:%d|i:%d", t.I, t.I)
	}
	return "?:" + t.String()
}

func oneOf(got string, want []string) bool {
	for _, g := range strings.Split(got, "|") {
		for _, w := range want {
			if g == w {
				return true
			}
		}
	}
	return false
}

type stats struct {
	ops, kinds   int
	peekThenRead bool
	crossedEnd   bool
	skipped      int
}

func checkIn(c Case) (st stats, err error) {
	src := strings.Repeat(" ", c.Pad) + c.Src
	var grow *growReader
	i := sut.New()
	alias := "user_input"
	eof := "reset"
	switch c.Stream {
	case "file":
		dir, e := os.MkdirTemp("", "c19-")
		if e != nil {
			return st, fmt.Errorf("infrastructure: %v", e)
		}
		defer os.RemoveAll(dir)
		fn := filepath.Join(dir, "in.txt")
		if e := os.WriteFile(fn, []byte(src), 0o644); e != nil {
			return st, fmt.Errorf("infrastructure: %v", e)
		}
		eof = c.Eof
		typ := "text"
		if c.Binary {
			typ = "binary"
		}
		res := i.Query(fmt.Sprintf("open('%s', read, _, [alias(in), eof_action(%s), type(%s)]).", fn, eof, typ), []string{}, 1, 100000)
		if res.Err != nil {
			return st, fmt.Errorf("infrastructure: open failed: %s", res.Err)
		}
		alias = "in"
	default:
		var rd interface {
			Read([]byte) (int, error)
		} = strings.NewReader(src)
		switch c.Stream {
		case "grow":
			grow = &growReader{}
			grow.buf.WriteString(src)
			rd = grow
		case "onebyte":
			rd = iotest.OneByteReader(strings.NewReader(src))
		case "dataerr":
			rd = iotest.DataErrReader(strings.NewReader(src))
		case "half":
			rd = iotest.HalfReader(strings.NewReader(src))
		}
		if c.Binary {
			i.P.SetUserInput(engine.NewInputBinaryStream(rd))
		} else {
			i.P.SetUserInput(engine.NewInputTextStream(rd))
		}
	}
	m := &model{src: []byte(src), eof: eof}
	if c.Skip > 0 && c.Skip <= c.Pad {
		get := "get_char"
		if c.Binary {
			get = "get_byte"
		}
		res := i.Query(fmt.Sprintf("between(1, %d, _), %s(%s, _), fail ; true.", c.Skip, get, alias), []string{}, 1, 5_000_000)
		if res.Err != nil || len(res.Answers) != 1 {
			return st, fmt.Errorf("consuming %d padding characters with %s failed: %v", c.Skip, get, res.Err)
		}
		m.cur = c.Skip
	}
	seen := map[string]bool{}
	prevPeek := false
	for qi, ops := range c.Queries {
		if grow != nil && c.Grow != "" && qi == c.GrowAt {
			// the host appends input; the stream (eof_action reset for host streams) goes on with it
			grow.buf.WriteString(c.Grow)
			m.src = append(m.src, c.Grow...)
			m.delivered, m.peekedEOF, m.justDelivered, m.grew = false, false, false, true
		}
		var goals []string
		var expect [][]string
		var vars []string
		var descr []string
		stop := false
		for oi, op := range ops {
			if stop {
				break
			}
			v := fmt.Sprintf("V%d", oi)
			var goal string
			var want []string
			save := *m
			switch op {
			case "get":
				if c.Binary {
					goal, want = fmt.Sprintf("get_byte(%s, %s)", alias, v), m.byteOp(false)
				} else {
					goal, want = fmt.Sprintf("get_char(%s, %s)", alias, v), m.char(false)
				}
			case "getx":
				// the character / byte argument is given: whether it matches or not, the input is consumed (ISO 8.12.1)
				var w []string
				if c.Binary {
					w = m.byteOp(false)
					goal = fmt.Sprintf("(get_byte(%s, 120) -> %s = y ; %s = n)", alias, v, v)
				} else {
					w = m.char(false)
					goal = fmt.Sprintf("(get_char(%s, x) -> %s = y ; %s = n)", alias, v, v)
				}
				for _, o := range w {
					switch o {
					case "c:x", "b:120":
						want = append(want, "a:y")
					case errPast, errRepr:
						want = append(want, o)
					default:
						want = append(want, "a:n")
					}
				}
			case "peek":
				if c.Binary {
					goal, want = fmt.Sprintf("peek_byte(%s, %s)", alias, v), m.byteOp(true)
				} else {
					goal, want = fmt.Sprintf("peek_char(%s, %s)", alias, v), m.char(true)
				}
			case "read":
				if c.Binary {
					st.skipped++
					continue
				}
				w, ok := m.readTerm()
				if !ok {
					*m = save
					st.skipped++
					continue // the text at the cursor is outside the modelled syntax: the operation is not issued
				}
				goal, want = fmt.Sprintf("read_term(%s, %s, [])", alias, v), w
			case "seek":
				// repositioning to where the stream is: nothing moves (only on a repositionable stream with input left;
				// set_stream_position/2 clears the end-of-stream state, which is not modelled)
				if c.Stream != "file" || m.cur >= len(m.src) {
					st.skipped++
					continue
				}
				goal = fmt.Sprintf("%s, stream_property(R%d, position(P%d)), set_stream_position(R%d, P%d), %s = done", streamGoal(alias, fmt.Sprintf("R%d", oi)), oi, oi, oi, oi, v)
				want = []string{"a:done"}
			case "pos":
				if grow != nil { // (what the position counts after a reset is not part of the property)
					st.skipped++
					continue
				}
				goal = fmt.Sprintf("%s, stream_property(S%d, position(%s))", streamGoal(alias, fmt.Sprintf("S%d", oi)), oi, v)
				want = []string{fmt.Sprintf("i:%d", m.cur)}
			case "eos":
				goal = fmt.Sprintf("%s, stream_property(T%d, end_of_stream(%s))", streamGoal(alias, fmt.Sprintf("T%d", oi)), oi, v)
				for _, e := range m.eos() {
					want = append(want, "a:"+e)
				}
			case "ateos":
				// at_end_of_stream/1 as a test: V = y / n
				// (through the stream term: at_end_of_stream/1 of this system does not accept an alias, which is
				// outside this property)
				goal = fmt.Sprintf("%s, (at_end_of_stream(U%d) -> %s = y ; %s = n)", streamGoal(alias, fmt.Sprintf("U%d", oi)), oi, v, v)
				for _, e := range m.eos() {
					if e == "not" {
						want = append(want, "a:n")
					} else {
						want = append(want, "a:y")
					}
				}
			default:
				return st, fmt.Errorf("infrastructure: op %q", op)
			}
			seen[op] = true
			if op == "get" || op == "peek" || op == "read" || op == "getx" {
				m.grew = false
			}
			if prevPeek && op != "peek" {
				st.peekThenRead = true
			}
			prevPeek = op == "peek"
			if m.cur >= len(m.src) {
				st.crossedEnd = true
			}
			goals, expect, vars = append(goals, goal), append(expect, want), append(vars, v)
			descr = append(descr, op)
			for _, w := range want {
				if w == errPast || w == errRepr {
					stop = true // an (acceptable) error ends the conjunction
				}
			}
		}
		if len(goals) == 0 {
			continue
		}
		st.ops += len(goals)
		q := strings.Join(goals, ", ") + "."
		res := i.Query(q, vars, 2, 1_000_000)
		last := expect[len(expect)-1]
		if res.Err != nil {
			f := sut.Formal(res.Err)
			isPast := f != nil && f.Is("permission_error", 3) && f.A[0].IsAtom("input") && f.A[1].IsAtom("past_end_of_stream")
			if f != nil && f.Is("representation_error", 1) && f.A[0].IsAtom("character") && oneOf(errRepr, last) {
				if m.broken {
					break // (a consuming read of a non-character: the rest of the history is not modelled)
				}
				continue
			}
			if !isPast || !oneOf(errPast, last) {
				return st, fmt.Errorf("query %d %s (operations %v) raised %s; expected %v", qi+1, q, descr, res.Err, expect)
			}
			// (the error could only come from the last goal: all earlier ones have no error among their outcomes)
			m.delivered = true
			continue
		}
		if len(res.Answers) != 1 {
			return st, fmt.Errorf("query %d %s has %d answers", qi+1, q, len(res.Answers))
		}
		for k := range vars {
			got := observe(res.Answers[0][k])
			if !oneOf(got, expect[k]) {
				return st, fmt.Errorf("query %d %s: operation %d (%s) delivered %s, the cursor model expects %v (all expectations %v)", qi+1, q, k+1, descr[k], res.Answers[0][k], expect[k], expect)
			}
		}
		if m.broken {
			break
		}
		if oneOf(errPast, last) && len(last) > 1 {
			// the ambiguous read after a peeked end delivered end_of_file: it counts as delivered (already set)
		}
	}
	st.kinds = len(seen)
	return st, nil
}

// ---- output -----------------------------------------------------------------------------------------------

var outAtoms = []string{"a", "foo", "é", "日本", "hello"}

func checkOut(c Case) (st stats, err error) {
	i := sut.New()
	var buf bytes.Buffer
	var fn string
	alias := "user_output"
	switch c.Stream {
	case "file":
		dir, e := os.MkdirTemp("", "c19-")
		if e != nil {
			return st, fmt.Errorf("infrastructure: %v", e)
		}
		defer os.RemoveAll(dir)
		fn = filepath.Join(dir, "out.bin")
		typ := "text"
		if c.Binary {
			typ = "binary"
		}
		res := i.Query(fmt.Sprintf("open('%s', write, _, [alias(out), type(%s)]).", fn, typ), []string{}, 1, 100000)
		if res.Err != nil {
			return st, fmt.Errorf("infrastructure: open failed: %s", res.Err)
		}
		alias = "out"
	default:
		if c.Binary {
			i.P.SetUserOutput(engine.NewOutputBinaryStream(&buf))
		} else {
			i.P.SetUserOutput(engine.NewOutputTextStream(&buf))
		}
	}
	var want bytes.Buffer
	for qi, ops := range c.Queries {
		var goals []string
		for _, op := range ops {
			parts := strings.SplitN(op, ":", 2)
			arg := ""
			if len(parts) == 2 {
				arg = parts[1]
			}
			switch parts[0] {
			case "put_char":
				goals = append(goals, fmt.Sprintf("put_char(%s, %s)", alias, rt.QuoteAtom(arg)))
				want.WriteString(arg)
			case "nl":
				goals = append(goals, fmt.Sprintf("nl(%s)", alias))
				want.WriteString("\n")
			case "write":
				goals = append(goals, fmt.Sprintf("write(%s, %s)", alias, rt.QuoteAtom(arg)))
				want.WriteString(arg)
			case "writeint":
				goals = append(goals, fmt.Sprintf("write(%s, %s)", alias, arg))
				want.WriteString(arg)
			case "writeq":
				goals = append(goals, fmt.Sprintf("write_term(%s, f(%s), [quoted(true)])", alias, rt.QuoteAtom(arg)))
				want.WriteString("f(" + rt.QuoteAtom(arg) + ")")
			case "put_byte":
				var b int
				fmt.Sscan(arg, &b)
				goals = append(goals, fmt.Sprintf("put_byte(%s, %d)", alias, b))
				want.WriteByte(byte(b))
			default:
				return st, fmt.Errorf("infrastructure: output op %q", op)
			}
			st.ops++
		}
		res := i.Query(strings.Join(goals, ", ")+".", []string{}, 2, 1_000_000)
		if res.Err != nil || len(res.Answers) != 1 {
			return st, fmt.Errorf("output query %d %v failed: %v", qi+1, goals, res.Err)
		}
	}
	var got []byte
	if c.Stream == "file" {
		res := i.Query("close(out).", []string{}, 1, 100000)
		if res.Err != nil {
			return st, fmt.Errorf("close failed: %s", res.Err)
		}
		got, _ = os.ReadFile(fn)
	} else {
		res := i.Query("flush_output(user_output).", []string{}, 1, 100000)
		if res.Err != nil {
			return st, fmt.Errorf("flush_output failed: %s", res.Err)
		}
		got = buf.Bytes()
	}
	if !bytes.Equal(got, want.Bytes()) {
		return st, fmt.Errorf("the sink received %q, the operations in program order produce %q", got, want.Bytes())
	}
	st.kinds = 2
	return st, nil
}

func check(c Case) (stats, error) {
	if c.Kind == "out" {
		return checkOut(c)
	}
	return checkIn(c)
}

func init() { h.Reg("c19", func(c Case) error { _, err := check(c); return err }) }

// ---- generators -----------------------------------------------------------------------------------------

func u(t *rapid.T, n int, l string) int { return int(rapid.Uint64().Draw(t, l) % uint64(n)) }

func genSrc(t *rapid.T) string {
	var b strings.Builder
	n := u(t, 5, "nseg")
	for k := 0; k < n; k++ {
		switch u(t, 8, "seg") {
		case 0:
			b.WriteString([]string{"é", "日", " ", "\n", "x", "😀", "\t", "\xff", "\uFFFD"}[u(t, 9, "junk")])
		default:
			if u(t, 3, "lead") == 0 {
				b.WriteString([]string{" ", "\n", "% c\n", "  ", "%\n"}[u(t, 5, "layout")])
			}
			b.WriteString([]string{"foo", "a", "bar", "12", "7", "b0", "0", "abc123"}[u(t, 8, "term")])
			b.WriteString(".")
			if k < n-1 || u(t, 2, "trail") == 0 {
				b.WriteString([]string{" ", "\n", "% c\n", "\t", " % trailing comment"}[u(t, 5, "sep")])
			}
		}
	}
	return b.String()
}

var textOps = []string{"get", "peek", "read", "ateos", "pos", "eos", "get", "peek", "read", "getx"}
var binOps = []string{"get", "peek", "ateos", "pos", "eos", "get", "peek", "getx"}

func genCase() *rapid.Generator[Case] {
	return rapid.Custom(func(t *rapid.T) Case {
		if u(t, 8, "out") == 0 {
			c := Case{Kind: "out", Stream: []string{"file", "host"}[u(t, 2, "sink")], Binary: u(t, 3, "bin") == 0}
			for q, nq := 0, 1+u(t, 3, "nq"); q < nq; q++ {
				var ops []string
				for k, n := 0, 1+u(t, 4, "nops"); k < n; k++ {
					if c.Binary {
						ops = append(ops, fmt.Sprintf("put_byte:%d", u(t, 256, "byte")))
						continue
					}
					switch u(t, 5, "oop") {
					case 0:
						ops = append(ops, "put_char:"+[]string{"a", "é", "日", " ", "x"}[u(t, 5, "ch")])
					case 1:
						ops = append(ops, "nl")
					case 2:
						ops = append(ops, "write:"+outAtoms[u(t, len(outAtoms), "atom")])
					case 3:
						ops = append(ops, fmt.Sprintf("writeint:%d", u(t, 1000, "int")))
					default:
						ops = append(ops, "writeq:"+[]string{"a", "hello world", "B", "[]"}[u(t, 4, "q")])
					}
				}
				c.Queries = append(c.Queries, ops)
			}
			return c
		}
		c := Case{Kind: "in", Src: genSrc(t)}
		if u(t, 12, "padded") == 0 {
			// the operations work around a buffer boundary
			c.Pad = []int{4096, 8192, 4095, 4097}[u(t, 4, "pad")] - u(t, 4, "short")
			c.Skip = c.Pad - u(t, 6, "back")
		}
		c.Stream = []string{"file", "file", "strings", "onebyte", "dataerr", "half", "grow"}[u(t, 7, "stream")]
		c.Binary = u(t, 4, "bin") == 0
		c.Eof = []string{"error", "eof_code", "reset"}[u(t, 3, "eof")]
		pool := textOps
		if c.Binary {
			pool = binOps
		}
		if c.Stream == "file" {
			pool = append(append([]string{}, pool...), "seek")
		}
		for q, nq := 0, 1+u(t, 5, "nq"); q < nq; q++ {
			var ops []string
			for k, n := 0, 1+u(t, 4, "nops"); k < n; k++ {
				ops = append(ops, pool[u(t, len(pool), "op")])
			}
			c.Queries = append(c.Queries, ops)
		}
		if c.Stream == "grow" {
			c.Pad, c.Skip = 0, 0
			c.Grow = genSrc(t)
			c.GrowAt = 1 + u(t, len(c.Queries), "growat")
			// enough reading before the new input arrives to reach the end of the first part now and then
			c.Queries = append([][]string{{"get", "get", "get", "get"}}, c.Queries...)
		}
		return c
	})
}

func TestProp(t *testing.T) {
	r := h.Start(t, "C19")
	defer r.Finish(t)
	r.Rule("rapid-generated cases. Input: a source assembled from segments (a lower-case atom or integer, an end '.', layout / comments, and arbitrary characters incl. multi-byte, with and without trailing layout after the last term, so the model knows where every term ends without a second parser) x a stream kind (a file opened with open/4 as text or binary with each eof_action; host readers given to SetUserInput: strings.Reader, one-byte reader, a reader returning its last data together with EOF, a half reader, a reader the host appends to after it was drained (eof_action reset goes on with the new input); text or binary) (one case in twelve: behind about 4096 or 8192 spaces, all but a few of which a get loop consumes first, so that the operations straddle a buffer boundary) x 1-5 queries of 1-4 operations each from {get_char/get_byte (also with the character / byte given: it is consumed whether it matches or not), peek_char/peek_byte, read_term, at_end_of_stream, stream_property position, stream_property end_of_stream, and on files set_stream_position to the position the stream is at} (sources contain now and then an invalid UTF-8 byte or a literal U+FFFD: peek_char raises representation_error(character) and moves nothing; after a get_char that met it the history ends) - operations are issued both in separate queries and as conjunctions inside one query. Oracle: a cursor model (bytes, cursor, end_of_file delivered): peeks return what the next read returns and move nothing; consecutive reads deliver consecutive characters, bytes or terms; read_term leaves the cursor right after the end '.'; at the end end_of_file / -1 is delivered once and then eof_action applies (a peek that showed end_of_file changes nothing: the next consuming read still delivers it); position = bytes consumed; end_of_stream is 'not' while input remains and 'past' once end_of_file was delivered by a read. A read_term whose text at the cursor is outside the modelled syntax is not issued. Output: put_char, nl, write, write_term, put_byte sequences on a file or a host writer (text and binary): after close / flush_output the sink holds exactly the concatenation in program order. Non-trivial: a sequence mixing >= 2 operation kinds with a peek followed by another kind, or reaching the end of the source. Distinct by case.",
		"the cursor model in props/c19", "behaviour after a syntax error in read_term and the at/not distinction when the source is exhausted but has not said so are not asserted")
	r.Regress(t)
	if r.Failed() {
		return
	}
	r.Rapid(t, "streams", r.Pick(30000, 1200000), func(t *rapid.T) {
		c := genCase().Draw(t, "case")
		st, err := check(c)
		r.Label("sampled_" + c.Kind)
		r.Label("stream:" + c.Stream)
		if c.Pad > 0 {
			r.Label("around_a_buffer_boundary")
		}
		r.Eval(st.ops)
		if c.Kind == "out" || (st.kinds >= 2 && (st.peekThenRead || st.crossedEnd)) {
			r.NonTrivial(h.Hash(c), c.Kind+":"+c.Stream, func() any { return c.String() })
		}
		if err != nil {
			r.Fail(t, "c19", c, err)
		}
	})
}

func TestReplay(t *testing.T) { h.Replay(t, "C19") }
func TestKnown(t *testing.T)  { h.KnownRepro(t, "C19") }
