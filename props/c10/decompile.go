package c10

import (
	"fmt"

	"github.com/ichiban/prolog/engine"

	"verif/internal/rt"
	"verif/internal/sut"
)

// decompile symbolically executes the instruction list of one compiled clause (hook
// VerifClauses) back to Head :- Goals. Clause variable slot i becomes rt.V(i).
func decompile(name string, arity int, c engine.VerifClause) (*rt.Term, error) {
	pc := 0
	code := c.Code
	at := func() (engine.VerifInstr, error) {
		if pc >= len(code) {
			return engine.VerifInstr{}, fmt.Errorf("ran off the end of the code at %d", pc)
		}
		return code[pc], nil
	}
	slot := func(op engine.Term) (*rt.Term, error) {
		i, ok := op.(engine.Integer)
		if !ok || int(i) < 0 || int(i) >= c.NVars {
			return nil, fmt.Errorf("variable slot %v out of range (clause has %d variables)", op, c.NVars)
		}
		return rt.V(int64(i)), nil
	}
	piOf := func(op engine.Term) (string, int, error) {
		pi, ok := op.(engine.Compound)
		if !ok || pi.Arity() != 2 {
			return "", 0, fmt.Errorf("operand %v is not a predicate indicator", op)
		}
		n, ok1 := pi.Arg(0).(engine.Atom)
		a, ok2 := pi.Arg(1).(engine.Integer)
		if !ok1 || !ok2 {
			return "", 0, fmt.Errorf("operand %v is not a predicate indicator", op)
		}
		return n.String(), int(a), nil
	}
	expectPop := func() error {
		in, err := at()
		if err != nil {
			return err
		}
		if in.Op != "pop" {
			return fmt.Errorf("expected pop at %d, found %s", pc, in.Op)
		}
		pc++
		return nil
	}
	var arg func(prefix string) (*rt.Term, error)
	arg = func(prefix string) (*rt.Term, error) {
		in, err := at()
		if err != nil {
			return nil, err
		}
		pc++
		many := func(n int) ([]*rt.Term, error) {
			out := make([]*rt.Term, n)
			for i := range out {
				a, err := arg(prefix)
				if err != nil {
					return nil, err
				}
				out[i] = a
			}
			return out, nil
		}
		switch in.Op {
		case prefix + "_const":
			return sut.Convert(in.Operand, nil), nil
		case prefix + "_var":
			return slot(in.Operand)
		case prefix + "_functor":
			f, n, err := piOf(in.Operand)
			if err != nil {
				return nil, err
			}
			args, err := many(n)
			if err != nil {
				return nil, err
			}
			if err := expectPop(); err != nil {
				return nil, err
			}
			return rt.C(f, args...), nil
		case prefix + "_list":
			n, ok := in.Operand.(engine.Integer)
			if !ok {
				return nil, fmt.Errorf("list length operand %v", in.Operand)
			}
			es, err := many(int(n))
			if err != nil {
				return nil, err
			}
			if err := expectPop(); err != nil {
				return nil, err
			}
			return rt.List(es, nil), nil
		case prefix + "_partial":
			n, ok := in.Operand.(engine.Integer)
			if !ok {
				return nil, fmt.Errorf("partial list length operand %v", in.Operand)
			}
			tail, err := arg(prefix)
			if err != nil {
				return nil, err
			}
			es, err := many(int(n))
			if err != nil {
				return nil, err
			}
			if err := expectPop(); err != nil {
				return nil, err
			}
			return rt.List(es, tail), nil
		}
		return nil, fmt.Errorf("unexpected %s at %d (expected a %s_* instruction)", in.Op, pc-1, prefix)
	}
	headArgs := make([]*rt.Term, arity)
	for i := range headArgs {
		a, err := arg("get")
		if err != nil {
			return nil, fmt.Errorf("head argument %d: %w", i+1, err)
		}
		headArgs[i] = a
	}
	head := rt.C(name, headArgs...)
	var goals []*rt.Term
	if in, err := at(); err == nil && in.Op == "enter" {
		pc++
	}
	for {
		in, err := at()
		if err != nil {
			return nil, err
		}
		if in.Op == "exit" {
			break
		}
		if in.Op == "cut" {
			pc++
			goals = append(goals, rt.A("!"))
			continue
		}
		var args []*rt.Term
		for {
			in, err := at()
			if err != nil {
				return nil, err
			}
			if in.Op == "call" {
				break
			}
			a, err := arg("put")
			if err != nil {
				return nil, fmt.Errorf("goal %d: %w", len(goals)+1, err)
			}
			args = append(args, a)
		}
		f, n, err := piOf(code[pc].Operand)
		if err != nil {
			return nil, err
		}
		pc++
		if n != len(args) {
			return nil, fmt.Errorf("call %s/%d with %d arguments on the stack", f, n, len(args))
		}
		goals = append(goals, rt.C(f, args...))
	}
	if pc != len(code)-1 {
		return nil, fmt.Errorf("code after exit")
	}
	if len(goals) == 0 {
		return rt.C(":-", head, rt.A("true")), nil
	}
	body := goals[len(goals)-1]
	for i := len(goals) - 2; i >= 0; i-- {
		body = rt.C(",", goals[i], body)
	}
	return rt.C(":-", head, body), nil
}

// alternatives splits a clause term the way the compiler is documented to: a top-level
// disjunctive body gives one compiled clause per disjunct (an if-then-else is one goal); each
// body is the flat sequence of its conjuncts, variable goals wrapped in call/1.
func alternatives(clause *rt.Term) []*rt.Term {
	head, body := clause, rt.A("true")
	if clause.Is(":-", 2) {
		head, body = clause.A[0], clause.A[1]
	}
	var alts []*rt.Term
	// only the right spine is split (a disjunction as the left operand is one goal)
	for body.Is(";", 2) && !body.A[0].Is("->", 2) {
		alts = append(alts, body.A[0])
		body = body.A[1]
	}
	alts = append(alts, body)
	var out []*rt.Term
	for _, a := range alts {
		gs := flatten(a)
		b := gs[len(gs)-1]
		for i := len(gs) - 2; i >= 0; i-- {
			b = rt.C(",", gs[i], b)
		}
		out = append(out, rt.C(":-", head, b))
	}
	return out
}

func flatten(t *rt.Term) []*rt.Term {
	if t.Is(",", 2) {
		return append(flatten(t.A[0]), flatten(t.A[1])...)
	}
	if t.K == rt.Var {
		return []*rt.Term{rt.C("call", t)}
	}
	return []*rt.Term{t}
}
