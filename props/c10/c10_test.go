package c10

import (
	"fmt"
	"io"
	"os"
	"strings"
	"testing"

	"github.com/ichiban/prolog"
	"github.com/ichiban/prolog/engine"
	"pgregory.net/rapid"

	"verif/internal/diff"
	"verif/internal/gen"
	"verif/internal/h"
	"verif/internal/ref"
	"verif/internal/rt"
	"verif/internal/sut"
)

// Bind is a binding in force when a clause is asserted.
type Bind struct {
	Var    int64    `json:"var"`
	Val    *rt.Term `json:"val,omitempty"`
	Prefix string   `json:"prefix,omitempty"` // non-empty: the value is built by append("Prefix", V25, Var), i.e. a partial list over a string
}

func (b Bind) value() *rt.Term {
	if b.Prefix != "" {
		return rt.C("$strpartial", rt.A(b.Prefix), rt.V(25))
	}
	return b.Val
}

func (b Bind) goal() *rt.Term {
	if b.Prefix != "" {
		return rt.C("append", gen.Str(b.Prefix), rt.V(25), rt.V(b.Var))
	}
	return rt.C("=", rt.V(b.Var), b.Val)
}

// expandPartial replaces '$strpartial'(Text, Tail) by the partial list of the string's elements.
func expandPartial(t *rt.Term, mode string) *rt.Term {
	if t.K != rt.Comp {
		return t
	}
	if t.Is("$strpartial", 2) {
		es, _ := gen.Plain(gen.Str(t.A[0].S), mode).Unlist()
		return rt.List(es, t.A[1])
	}
	args := make([]*rt.Term, len(t.A))
	for i, a := range t.A {
		args[i] = expandPartial(a, mode)
	}
	return rt.C(t.S, args...)
}

// Case: clause terms for the predicates k/1, k/2, j/2 (strings are '$str' nodes) with, per
// clause, the bindings applied in the calling environment at assert time; probe queries.
type Case struct {
	Clauses []*rt.Term `json:"clauses"`
	Binds   [][]Bind   `json:"binds"`
	Reverse bool       `json:"reverse,omitempty"` // assert path: asserta in reverse order instead of assertz in order
	// Twice: on the assert path every clause is added twice from one variable (C = Clause, assertz(C), assertz(C)):
	// two stored clauses that come from one term instance are still two clauses
	Twice  bool       `json:"twice,omitempty"`
	DQ     string     `json:"dq"` // double_quotes flag in force: chars | codes
	// Under: the variables of the clause texts are written _V0, _V1, … (named variables all the same)
	Under bool `json:"under,omitempty"`
	Probes []*rt.Term `json:"probes"`
}

func (c Case) names(ids []int64) map[int64]string {
	m := rt.VarNames(ids)
	if c.Under {
		for k, v := range m {
			m[k] = "_" + v
		}
	}
	return m
}

func (c Case) mode() string {
	if c.DQ == "" {
		return "chars"
	}
	return c.DQ
}

// expectedSrc is the clause with the assert-time bindings applied, strings still as literals.
func (c Case) expectedSrc(i int) *rt.Term {
	m := map[int64]*rt.Term{}
	for _, b := range c.Binds[i] {
		m[b.Var] = b.value()
	}
	return expandPartial(c.Clauses[i].Subst(m), c.mode())
}

func (c Case) expected(i int) *rt.Term { return gen.Plain(c.expectedSrc(i), c.mode()) }

func (c Case) String() string {
	var b strings.Builder
	for i, cl := range c.Clauses {
		b.WriteString(c.assertQuery(i) + "\n")
		_ = cl
	}
	for _, p := range c.Probes {
		b.WriteString("?- " + p.Text(rt.VarNames(p.Vars(nil))) + ".\n")
	}
	return b.String()
}

func (c Case) assertQuery(i int) string {
	cl := c.Clauses[i]
	ids := cl.Vars(nil)
	for _, b := range c.Binds[i] {
		ids = b.goal().Vars(ids)
	}
	names := c.names(ids)
	var gs []string
	for _, b := range c.Binds[i] {
		gs = append(gs, gen.TextStr(b.goal(), names))
	}
	op := "assertz"
	if c.Reverse {
		op = "asserta"
	}
	if c.Twice {
		cv := rt.V(77)
		names[77] = "TheClause"
		gs = append(gs, gen.TextStr(rt.C("=", cv, cl), names), gen.TextStr(rt.C(op, cv), names), gen.TextStr(rt.C(op, cv), names))
		return strings.Join(gs, ", ") + "."
	}
	gs = append(gs, gen.TextStr(rt.C(op, cl), names))
	return strings.Join(gs, ", ") + "."
}

type sig struct {
	name  string
	arity int
}

var sigs = []sig{{"k", 1}, {"k", 2}, {"j", 2}}

type gg struct {
	t        *rapid.T
	nvars    int
	goalVars map[int64]bool
}

func (x *gg) n(lo, hi int, l string) int {
	if hi <= lo {
		return lo
	}
	return lo + int(rapid.Uint64().Draw(x.t, l)%uint64(hi-lo+1))
}
func (x *gg) p(pc int, l string) bool { return int(rapid.Uint64().Draw(x.t, l)%100) < pc }
func (x *gg) v() *rt.Term {
	if x.nvars == 0 || (x.nvars < 6 && x.p(40, "nv")) {
		x.nvars++
		return rt.V(int64(x.nvars - 1))
	}
	return rt.V(int64(x.n(0, x.nvars-1, "v")))
}
func (x *gg) atom() *rt.Term { return rt.A([]string{"a", "b", "[]", "f"}[x.n(0, 3, "a")]) }

func (x *gg) term(d int) *rt.Term {
	if d > 0 && x.p(3, "wide") {
		// a compound of arity 9-12 with many distinct variables (vectors of more than 8 terms take another
		// allocation path; a clause with more than 8 variables likewise)
		args := make([]*rt.Term, x.n(9, 12, "widearity"))
		for i := range args {
			if x.p(70, "widevar") && x.nvars < 19 { // ids from 20 are the variables of the assert-time bindings
				x.nvars++
				args[i] = rt.V(int64(x.nvars - 1))
			} else {
				args[i] = x.term(0)
			}
		}
		return rt.C("w", args...)
	}
	k := x.n(0, 13, "term")
	switch {
	case k < 3:
		return x.v()
	case k < 6 || d <= 0:
		switch x.n(0, 3, "atomic") {
		case 0:
			return rt.I(int64(x.n(0, 2, "i")))
		case 1:
			return rt.F(float64(x.n(0, 3, "f")) / 2)
		}
		return x.atom()
	case k < 7:
		return rt.C("f", x.term(d-1))
	case k < 8:
		return rt.C("f", x.term(d-1), x.term(d-1))
	case k < 9:
		return rt.C("g", x.term(d-1), x.term(d-1), x.term(d-1))
	case k < 10:
		return gen.Str([]string{"ab", "a", "xyz", ""}[x.n(0, 3, "str")])
	default:
		n := x.n(0, 6, "listlen")
		es := make([]*rt.Term, n)
		for i := range es {
			es[i] = x.term(d - 1)
		}
		var tail *rt.Term
		if x.p(35, "partial") {
			tail = x.v()
		}
		return rt.List(es, tail)
	}
}

func (x *gg) simple() *rt.Term {
	switch k := x.n(0, 12, "goal"); {
	case k == 12:
		gv := x.v()
		x.goalVars[gv.I] = true
		return rt.C("call", gv) // (bound to ! when the clause is added: still a cut local to the call)
	case k < 2:
		return rt.C("n", x.v())
	case k < 3:
		return rt.C("m", x.v())
	case k < 6:
		return rt.C("=", x.v(), x.term(2))
	case k < 7:
		return rt.A("true")
	case k < 8:
		s := sigs[x.n(0, len(sigs)-1, "call")]
		args := make([]*rt.Term, s.arity)
		for i := range args {
			args[i] = x.term(1)
		}
		return rt.C(s.name, args...)
	case k < 10:
		gv := x.v()
		x.goalVars[gv.I] = true
		return gv // variable goal
	case k < 11:
		return rt.A("!")
	default:
		return rt.C("\\+", rt.C("=", x.v(), x.term(1)))
	}
}

func (x *gg) conj(max int) *rt.Term {
	n := x.n(1, max, "conj")
	gs := make([]*rt.Term, n)
	for i := range gs {
		gs[i] = x.simple()
	}
	t := gen.Conj(gs)
	if n >= 3 && x.p(30, "leftnest") { // (A, B), C
		t = rt.C(",", rt.C(",", gs[0], gs[1]), gen.Conj(gs[2:]))
	}
	return t
}

func (x *gg) body() *rt.Term {
	switch k := x.n(0, 9, "body"); {
	case k < 6:
		return x.conj(4)
	case k < 8: // top-level disjunction (2 or 3 alternatives, right nested)
		b := rt.C(";", x.noIte(x.conj(2)), x.conj(2))
		if x.p(30, "alt3") {
			b = rt.C(";", x.noIte(x.conj(2)), b)
		}
		return b
	case k < 9: // if-then-else as the whole body or as a goal
		ite := rt.C(";", rt.C("->", rt.C("n", x.v()), rt.C("=", x.v(), x.term(1))), rt.C("=", x.v(), x.term(1)))
		if x.p(50, "itegoal") {
			return rt.C(",", x.simple(), ite)
		}
		return ite
	default: // a disjunction whose left operand is a variable (bound at assert time, maybe to an if-then term)
		gv := x.v()
		x.goalVars[gv.I] = true
		return rt.C(";", gv, x.conj(2))
	}
}

func (x *gg) noIte(t *rt.Term) *rt.Term {
	if t.Is("->", 2) {
		return rt.C(",", rt.A("true"), t)
	}
	return t
}

func (x *gg) bindVal(goal bool) *rt.Term {
	if goal {
		w := rt.V(int64(20 + x.n(0, 3, "w")))
		switch x.n(0, 5, "gval") {
		case 5:
			return rt.A("!") // as a body goal: the clause's own cut; under call/1: local
		case 0:
			return rt.C("n", w)
		case 1:
			return rt.C("=", w, rt.A("a"))
		case 2:
			return rt.C("->", rt.C("n", w), rt.C("=", w, rt.I(1))) // an if-then term reaching the body through a variable
		case 3:
			return rt.C(",", rt.C("n", w), rt.C("m", rt.V(int64(24))))
		default:
			return rt.A("true")
		}
	}
	switch x.n(0, 6, "val") {
	case 0:
		return rt.A("k")
	case 1:
		return rt.C("f", rt.A("k"))
	case 2:
		return rt.ListOf(rt.A("k"), rt.A("l"))
	case 3:
		return rt.I(7)
	case 4:
		return gen.Str("ab")
	case 5:
		return rt.List([]*rt.Term{rt.A("k")}, rt.V(int64(25)))
	default:
		return rt.C("g", rt.V(int64(26)), rt.V(int64(26)), rt.A("k"))
	}
}

func genCase() *rapid.Generator[Case] {
	return rapid.Custom(func(t *rapid.T) Case {
		x := &gg{t: t}
		var c Case
		for _, s := range sigs {
			for i, n := 0, x.n(0, 3, "nclauses"); i < n; i++ {
				x.nvars = 0
				x.goalVars = map[int64]bool{}
				args := make([]*rt.Term, s.arity)
				for j := range args {
					args[j] = x.term(2)
				}
				head := rt.C(s.name, args...)
				cl := head
				if x.p(70, "rule") {
					cl = rt.C(":-", head, x.body())
				}
				var bs []Bind
				for _, id := range cl.Vars(nil) {
					if x.goalVars[id] {
						if x.p(70, "bindgoal") {
							bs = append(bs, Bind{Var: id, Val: x.bindVal(true)})
						}
					} else if x.p(25, "bind") {
						if x.p(20, "viaappend") {
							bs = append(bs, Bind{Var: id, Prefix: []string{"ab", "a", "xyz"}[x.n(0, 2, "prefix")]})
						} else {
							bs = append(bs, Bind{Var: id, Val: x.bindVal(false)})
						}
					}
				}
				c.Clauses = append(c.Clauses, cl)
				c.Binds = append(c.Binds, bs)
			}
		}
		c.Reverse = x.p(30, "reverse")
		c.Twice = x.p(15, "twice")
		c.Under = x.p(15, "under")
		c.DQ = []string{"chars", "codes"}[x.n(0, 1, "dq")]
		for _, s := range sigs {
			args := make([]*rt.Term, s.arity)
			for j := range args {
				args[j] = rt.V(int64(j))
			}
			c.Probes = append(c.Probes, rt.C(s.name, args...))
			// a probe with an argument taken from some clause head (renamed apart)
			for i, cl := range c.Clauses {
				hd := c.expected(i)
				if hd.Is(":-", 2) {
					hd = hd.A[0]
				}
				if hd.S == s.name && len(hd.A) == s.arity && x.p(40, "instprobe") {
					a2 := append([]*rt.Term{}, args...)
					j := x.n(0, s.arity-1, "which")
					ren := map[int64]int64{}
					for _, id := range hd.A[j].Vars(nil) {
						ren[id] = id + 100
					}
					a2[j] = hd.A[j].Rename(ren)
					c.Probes = append(c.Probes, rt.C(s.name, a2...))
					_ = cl
					break
				}
			}
		}
		return c
	})
}

var helpers = "n(1).\nn(2).\nm(a).\nm(b).\n"

type stats struct {
	clauses, nontrivial int
	discards            []string
}

func headBody(t *rt.Term) (*rt.Term, *rt.Term) {
	if t.Is(":-", 2) {
		return t.A[0], t.A[1]
	}
	return t, rt.A("true")
}

// check runs all oracles on both loading paths.
func check(c Case) (st stats, err error) {
	exp := make([]*rt.Term, len(c.Clauses))
	for i := range c.Clauses {
		exp[i] = c.expected(i)
	}
	for _, path := range []string{"exec", "assert"} {
		i := sut.New()
		var b strings.Builder
		// (the flag is set by a separate load: a parser keeps the flag value it was created with)
		if e := i.Exec(":- set_prolog_flag(double_quotes, "+c.mode()+").\n", 100000); e != nil {
			return st, fmt.Errorf("infrastructure: %s", e)
		}
		b.WriteString(":- dynamic(k/1).\n:- dynamic(k/2).\n:- dynamic(j/2).\n" + helpers)
		if path == "exec" {
			for k := range c.Clauses {
				e := c.expectedSrc(k)
				b.WriteString(gen.TextStr(e, c.names(e.Vars(nil))) + ".\n")
			}
		}
		if e := i.Exec(b.String(), 2_000_000); e != nil {
			return st, fmt.Errorf("[%s] loading failed: %s\n%s", path, e, b.String())
		}
		if path == "assert" {
			order := make([]int, len(c.Clauses))
			for k := range order {
				order[k] = k
			}
			if c.Reverse {
				// asserta in reverse order within each predicate reproduces the source order
				for l, r := 0, len(order)-1; l < r; l, r = l+1, r-1 {
					order[l], order[r] = order[r], order[l]
				}
			}
			for _, k := range order {
				q := c.assertQuery(k)
				res := i.Query(q, []string{}, 1, 500000)
				if res.Err != nil || len(res.Answers) != 1 {
					return st, fmt.Errorf("[assert] %s failed: %v (%d answers)", q, res.Err, len(res.Answers))
				}
			}
		}
		pexp := exp
		if path == "assert" && c.Twice {
			pexp = nil
			for _, e := range exp {
				pexp = append(pexp, e, e)
			}
		}
		if err := verify(c, pexp, i, path, &st); err != nil {
			return st, err
		}
	}
	return st, nil
}

func verify(c Case, exp []*rt.Term, i *sut.I, path string, st *stats) error {
	// (1) clause/2 lists exactly the expected clauses in order, as variants
	for _, s := range sigs {
		var want []*rt.Term
		for _, e := range exp {
			hd, bd := headBody(e)
			if hd.S == s.name && len(hd.A) == s.arity {
				want = append(want, rt.C(":-", hd, bd))
			}
		}
		args := make([]*rt.Term, s.arity)
		for j := range args {
			args[j] = rt.V(int64(j))
		}
		hd := rt.C(s.name, args...)
		q := rt.C("findall", rt.C(":-", hd, rt.V(10)), rt.C("clause", hd, rt.V(10)), rt.V(11))
		res := i.Query(q.Text(map[int64]string{0: "A0", 1: "A1", 10: "B", 11: "L"})+".", []string{"L"}, 1, 500000)
		if res.Err != nil || len(res.Answers) != 1 {
			return fmt.Errorf("[%s] clause/2 listing of %s/%d failed: %v", path, s.name, s.arity, res.Err)
		}
		got, _ := res.Answers[0][0].Unlist()
		if len(got) != len(want) {
			return fmt.Errorf("[%s] clause/2 lists %d clauses of %s/%d, %d were added: %s vs expected %s", path, len(got), s.name, s.arity, len(want), rt.Strings(got), rt.Strings(want))
		}
		for k := range got {
			if !rt.Variant(got[k], want[k]) {
				return fmt.Errorf("[%s] clause %d of %s/%d: clause/2 gives %s, the clause added was %s", path, k+1, s.name, s.arity, got[k], want[k])
			}
		}
		// (3) translation validation through the hook
		vcs := i.P.VerifClauses(s.name, s.arity)
		var wantAlts, raws []*rt.Term
		for _, w := range want {
			as := alternatives(w)
			wantAlts = append(wantAlts, as...)
			for range as {
				raws = append(raws, w)
			}
		}
		if len(vcs) != len(wantAlts) {
			return fmt.Errorf("[%s] %s/%d has %d compiled clauses, the source has %d alternatives", path, s.name, s.arity, len(vcs), len(wantAlts))
		}
		for k, vc := range vcs {
			raw := sut.Convert(vc.Raw, nil)
			rh, rb := headBody(raw)
			if !rt.Variant(rt.C(":-", rh, rb), raws[k]) {
				return fmt.Errorf("[%s] stored term of compiled clause %d of %s/%d is %s, the clause added was %s", path, k+1, s.name, s.arity, raw, raws[k])
			}
			d, err := decompile(s.name, s.arity, vc)
			if err != nil {
				return fmt.Errorf("[%s] compiled clause %d of %s/%d does not decompile: %v", path, k+1, s.name, s.arity, err)
			}
			if !rt.Variant(d, wantAlts[k]) {
				return fmt.Errorf("[%s] compiled clause %d of %s/%d denotes %s, its source is %s", path, k+1, s.name, s.arity, d, wantAlts[k])
			}
			st.clauses++
			hd, bd := headBody(wantAlts[k])
			if bd.Size() > 1 && hd.Size() > 2 && len(rt.C("x", hd).Vars(nil)) > 0 {
				st.nontrivial++
			}
		}
	}
	// (2) behaviour equals the reference run on the expected clause terms
	for _, pq := range c.Probes {
		p := &gen.Program{Clauses: append([]*rt.Term{gen.MustParse("n(1)"), gen.MustParse("n(2)"), gen.MustParse("m(a)"), gen.MustParse("m(b)")}, exp...),
			Dynamic: []string{"k/1", "k/2", "j/2"}, Query: pq}
		o := diff.DefaultOpts()
		rr, _, _ := diff.RunRef(p, o, false)
		if d := rr.Discard(); d != "" {
			st.discards = append(st.discards, d)
			continue
		}
		q, names := p.QueryText()
		got := i.Query(q, names, o.MaxAnswers, rr.Stats.RealBudget())
		if e := diff.Compare(rr, got, false); e != nil {
			return fmt.Errorf("[%s] probe %s: %v", path, q, e)
		}
	}
	// (4) retract((H :- B)) enumerates and removes the same clauses in order
	for _, s := range sigs {
		var want []*rt.Term
		for _, e := range exp {
			hd, bd := headBody(e)
			if hd.S == s.name && len(hd.A) == s.arity {
				want = append(want, rt.C(":-", hd, bd))
			}
		}
		args := make([]*rt.Term, s.arity)
		for j := range args {
			args[j] = rt.V(int64(j))
		}
		hd := rt.C(s.name, args...)
		q := rt.C(",", rt.C("findall", rt.C(":-", hd, rt.V(10)), rt.C("retract", rt.C(":-", hd, rt.V(10))), rt.V(11)),
			rt.C("findall", rt.V(12), rt.C("clause", hd, rt.V(12)), rt.V(13)))
		res := i.Query(q.Text(map[int64]string{0: "A0", 1: "A1", 10: "B", 11: "L", 12: "C", 13: "Rest"})+".", []string{"L", "Rest"}, 1, 500000)
		if res.Err != nil || len(res.Answers) != 1 {
			return fmt.Errorf("[%s] retract enumeration of %s/%d failed: %v", path, s.name, s.arity, res.Err)
		}
		got, _ := res.Answers[0][0].Unlist()
		rest, _ := res.Answers[0][1].Unlist()
		if len(got) != len(want) || len(rest) != 0 {
			return fmt.Errorf("[%s] retract((H:-B)) removed %d clauses of %s/%d and left %d; %d were added", path, len(got), s.name, s.arity, len(rest), len(want))
		}
		for k := range got {
			if !rt.Variant(got[k], want[k]) {
				return fmt.Errorf("[%s] retract solution %d of %s/%d is %s, the clause added was %s", path, k+1, s.name, s.arity, got[k], want[k])
			}
		}
	}
	return nil
}

// bootstrapCheck validates every clause of bootstrap.pl: its compiled form must denote the source clause.
func bootstrapCheck() (n int, err error) {
	root := os.Getenv("VERIF_REPO")
	if root == "" {
		root = "/repo"
	}
	src, e := os.ReadFile(root + "/bootstrap.pl")
	if e != nil {
		return 0, fmt.Errorf("infrastructure: %v", e)
	}
	p := prolog.New(nil, nil)
	ps := engine.NewParser(&p.VM, strings.NewReader(string(src)))
	type key struct {
		name  string
		arity int
	}
	var order []key
	groups := map[key][]*rt.Term{}
	for {
		t, e := ps.Term()
		if e == io.EOF {
			break
		}
		if e != nil {
			return n, fmt.Errorf("infrastructure: bootstrap.pl does not parse: %v", e)
		}
		r := rt.Canon([]*rt.Term{sut.Convert(t, nil)})[0]
		if r.Is(":-", 1) {
			continue
		}
		if r.Is("-->", 2) {
			return n, fmt.Errorf("infrastructure: bootstrap.pl contains a grammar rule; the bootstrap validation does not expand them")
		}
		hd, bd := headBody(r)
		k := key{hd.S, len(hd.A)}
		if _, ok := groups[k]; !ok {
			order = append(order, k)
		}
		groups[k] = append(groups[k], rt.C(":-", hd, bd))
	}
	for _, k := range order {
		var wantAlts []*rt.Term
		for _, w := range groups[k] {
			wantAlts = append(wantAlts, alternatives(w)...)
		}
		vcs := p.VerifClauses(k.name, k.arity)
		if len(vcs) != len(wantAlts) {
			return n, fmt.Errorf("bootstrap %s/%d: %d compiled clauses, the source has %d alternatives", k.name, k.arity, len(vcs), len(wantAlts))
		}
		for j, vc := range vcs {
			d, e := decompile(k.name, k.arity, vc)
			if e != nil {
				return n, fmt.Errorf("bootstrap %s/%d clause %d does not decompile: %v", k.name, k.arity, j+1, e)
			}
			if !rt.Variant(d, wantAlts[j]) {
				return n, fmt.Errorf("bootstrap %s/%d clause %d denotes %s, its source is %s", k.name, k.arity, j+1, d, wantAlts[j])
			}
			n++
		}
	}
	return n, nil
}

var _ = ref.Nil

func init() {
	h.Reg("c10", func(c Case) error { _, err := check(c); return err })
	h.Reg("bootstrap", func(struct{}) error { _, err := bootstrapCheck(); return err })
}

func TestProp(t *testing.T) {
	r := h.Start(t, "C10")
	defer r.Finish(t)
	r.Rule("rapid-generated clause sets for k/1, k/2, j/2: heads and body-goal arguments with atoms, integers, floats, double-quoted strings, nested compounds (same functor at several arities), proper and partial lists of length 0-6, repeated and singleton variables; bodies with 1-4 goals (also left-nested conjunctions), variable goals (bare and under call/1; bound, when the clause is added, to callable terms including ! ), cut, \\+, if-then-else, top-level disjunctions (2-3 alternatives), a disjunction whose left operand is a variable; per clause a set of bindings in force at assert time (data terms, strings, partial lists, and for goal variables callable terms including an if-then term). In one case in seven the variables of the clause texts carry names that begin with an underscore. Every set is added through Exec text and through assertz (or asserta in reverse order) under the bindings. Oracles on both paths: clause/2 lists exactly the clauses added, in order, as variants of the source term with the bindings applied; probe queries (all-variable and partially instantiated) answer as the reference machine does on those terms; the compiled instruction list of every clause (hook VerifClauses) decompiles to the source clause (same head arguments, goals in order, variable sharing) and its stored term is the source term; retract((H:-B)) enumerates and removes the same clauses in order. Shard 0 also validates every clause of bootstrap.pl against its compiled form. Non-trivial: a clause with a body goal and a compound/list head argument and at least one variable. Distinct by case.",
		"the decompiler (props/c10/decompile.go) over the VerifClauses hook; the reference machine for behaviour",
		"the splitting of top-level disjunctions into one compiled clause per disjunct is the compiler's documented design and is mirrored by the expected form")
	if r.Shard() == 0 {
		if err := diff.OracleSelfTest(); err != nil {
			t.Fatalf("%v", err)
		}
		r.LabelN("oracle_self_test_examples", ref.NExamples())
	}
	r.Regress(t)
	if r.Failed() {
		return
	}
	if r.Shard() == 0 {
		n, err := bootstrapCheck()
		r.Eval(n)
		r.LabelN("bootstrap_clauses_validated", n)
		if err != nil {
			r.Fail(t, "bootstrap", struct{}{}, err)
		}
	}
	r.Rapid(t, "clauses", r.Pick(16000, 600000), func(t *rapid.T) {
		c := genCase().Draw(t, "case")
		stop := r.Slow(c)
		st, err := check(c)
		stop()
		r.Label("sampled")
		r.Eval(st.clauses)
		for _, d := range st.discards {
			r.Discard("probe:" + d)
		}
		nb := 0
		for _, b := range c.Binds {
			nb += len(b)
		}
		if nb > 0 {
			r.Label("with_bindings_at_assert_time")
		}
		if st.nontrivial > 0 {
			r.NonTrivial(h.Hash(c), "c10", func() any { return c.String() })
		}
		if err != nil {
			r.Fail(t, "c10", c, err)
		}
	})
}

func TestReplay(t *testing.T) { h.Replay(t, "C10") }
func TestKnown(t *testing.T)  { h.KnownRepro(t, "C10") }
