package c11

import (
	"fmt"
	"math"
	"sort"
	"strings"
	"testing"

	"pgregory.net/rapid"

	"verif/internal/diff"
	"verif/internal/gen"
	"verif/internal/h"
	"verif/internal/ref"
	"verif/internal/rt"
	"verif/internal/sut"
)

// Case: a program of facts/rules and one all-solutions call  Kind(Template, Goal, Result) whose
// answers (bindings of every variable of the call) are compared as a set of groups.
type Case struct {
	Clauses []*rt.Term `json:"clauses"`
	Kind    string     `json:"kind"` // findall | bagof | setof
	Tmpl    *rt.Term   `json:"tmpl"`
	Goal    *rt.Term   `json:"goal"`
	Res     *rt.Term   `json:"res"`
	Nested  bool       `json:"nested,omitempty"`
	ViaVar  bool       `json:"via_var,omitempty"`  // the goal reaches the call through a variable bound beforehand
	Inner   bool       `json:"inner,omitempty"`    // with ViaVar: only the part under the outermost ^ goes through the variable
	TmplVia bool       `json:"tmpl_via,omitempty"` // the template reaches the call through a variable bound beforehand
	DQ      string     `json:"dq,omitempty"`       // double_quotes value set before loading ("" = default)
	Assert  bool       `json:"assert,omitempty"`   // the clauses are added by assertz instead of Exec
}

func (c Case) call() *rt.Term {
	if c.TmplVia && !c.ViaVar {
		// T = Template, bagof(T, Goal, L): the variables of the template are the template's, bound late or early
		return rt.C(",", rt.C("=", rt.V(61), c.Tmpl), rt.C(c.Kind, rt.V(61), c.Goal, c.Res))
	}
	if c.ViaVar && c.Inner && c.Goal.Is("^", 2) {
		// the outer ^ is written in place, the rest of the goal (possibly with further ^) reaches it through a variable
		return rt.C(",", rt.C("=", rt.V(60), c.Goal.A[1]), rt.C(c.Kind, c.Tmpl, rt.C("^", c.Goal.A[0], rt.V(60)), c.Res))
	}
	if c.ViaVar {
		return rt.C(",", rt.C("=", rt.V(60), c.Goal), rt.C(c.Kind, c.Tmpl, rt.V(60), c.Res))
	}
	return rt.C(c.Kind, c.Tmpl, c.Goal, c.Res)
}

func (c Case) program() *gen.Program {
	return &gen.Program{Clauses: c.Clauses, Query: c.call(), DQ: c.DQ, ViaAssert: c.Assert}
}

func (c Case) String() string { return c.program().String() }

type gg struct {
	t     *rapid.T
	nvars int
}

func (x *gg) n(lo, hi int, l string) int {
	if hi <= lo {
		return lo
	}
	return lo + int(rapid.Uint64().Draw(x.t, l)%uint64(hi-lo+1))
}
func (x *gg) p(pc int, l string) bool { return int(rapid.Uint64().Draw(x.t, l)%100) < pc }
func (x *gg) v() *rt.Term {
	if x.nvars == 0 || (x.nvars < 5 && x.p(40, "nv")) {
		x.nvars++
		return rt.V(int64(x.nvars - 1))
	}
	return rt.V(int64(x.n(0, x.nvars-1, "v")))
}
func (x *gg) atom() *rt.Term {
	if x.p(12, "oddatom") { // one-character atoms against longer and empty ones (their order is that of their text)
		return rt.A([]string{"", "ab", "foo", "x", "é", "zebra", "b"}[x.n(0, 6, "oa")])
	}
	return rt.A([]string{"a", "b", "c"}[x.n(0, 2, "a")])
}
func (x *gg) val(vars bool) *rt.Term {
	if x.p(8, "stringorlist") {
		// the same list as a double-quoted string (compact representation) and written out: witnesses that differ only
		// in representation are one witness
		return []*rt.Term{gen.Str("ab"), rt.List([]*rt.Term{rt.A("a"), rt.A("b")}, nil), gen.Str("a"), rt.List([]*rt.Term{rt.A("a")}, nil), gen.Str("")}[x.n(0, 4, "sl")]
	}
	if x.p(8, "extremenumber") { // integers whose difference does not fit in 64 bits; floats (all floats precede all integers)
		return []*rt.Term{rt.I(math.MaxInt64), rt.I(math.MinInt64), rt.I(-1), rt.I(1 << 62), rt.I(-(1 << 62) - 2), rt.F(1.5), rt.F(-0.5), rt.F(1e30)}[x.n(0, 7, "xn")]
	}
	switch k := x.n(0, 9, "val"); {
	case k < 4:
		return x.atom()
	case k < 6:
		return rt.I(int64(x.n(0, 2, "i")))
	case k < 7 && vars:
		return x.v()
	case k < 8:
		return rt.C("f", x.val(vars))
	case k < 9 && vars:
		// witnesses that are variants of each other: f(X,X) vs f(_,_)
		if x.p(50, "same") {
			v := x.v()
			return rt.C("f", v, v)
		}
		return rt.C("f", x.v(), x.v())
	default:
		return rt.C("g", x.atom(), x.val(vars))
	}
}

func genCase() *rapid.Generator[Case] {
	return rapid.Custom(func(t *rapid.T) Case {
		x := &gg{t: t}
		var c Case
		// facts w/2 and w/3, some with variables (non-ground witnesses), duplicates likely
		nf := x.n(2, 7, "nfacts")
		for i := 0; i < nf; i++ {
			x.nvars = 0
			if x.p(65, "w2") {
				c.Clauses = append(c.Clauses, rt.C("w", x.val(true), x.val(true)))
			} else {
				c.Clauses = append(c.Clauses, rt.C("w", x.val(true), x.val(true), x.val(false)))
			}
		}
		c.Clauses = append(c.Clauses, gen.MustParse("w(zz, zz)"), gen.MustParse("w(zz, zz, zz)"),
			gen.MustParse("n(1)"), gen.MustParse("n(2)"), gen.MustParse("n(3)"),
			gen.MustParse("v(X, Y) :- w(X, Y)"), gen.MustParse("v(X, Y) :- n(X), w(Y, _)"))
		x.nvars = 0
		a, b, d := x.v(), x.v(), x.v()
		goals := []func() *rt.Term{
			func() *rt.Term { return rt.C("w", a, b) },
			func() *rt.Term { return rt.C("w", a, b, d) },
			func() *rt.Term { return rt.C("v", a, b) },
			func() *rt.Term { return rt.C(",", rt.C("w", a, b), rt.C("n", d)) },
			func() *rt.Term { return rt.C(",", rt.C("n", a), rt.C("w", b, d)) },
			func() *rt.Term {
				es := make([]*rt.Term, x.n(0, 4, "ml"))
				for i := range es {
					es[i] = x.val(true)
				}
				return rt.C("member", a, rt.List(es, nil))
			},
			func() *rt.Term { return rt.C(";", rt.C("w", a, b), rt.C("=", a, b)) },
			func() *rt.Term { return rt.C(",", rt.C("w", a, b), rt.C("\\==", a, rt.A("zz"))) },
			func() *rt.Term { return rt.C("w", a, rt.C("f", b, d)) },
		}
		goal := goals[x.n(0, len(goals)-1, "goal")]()
		if x.p(20, "nestedall") {
			// nested all-solutions call inside the goal
			inner := []string{"findall", "bagof", "setof"}[x.n(0, 2, "inner")]
			l := rt.V(40)
			if x.p(10, "sharedinnerresult") {
				l = x.v()
			}
			goal = rt.C(",", rt.C("n", d), rt.C(inner, a, rt.C("w", a, b), l))
			c.Nested = true
		}
		// ^-quantification: any subset of the goal variables, nested, or a compound
		c.Kind = []string{"findall", "bagof", "setof", "bagof", "setof"}[x.n(0, 4, "kind")]
		for _, id := range goal.Vars(nil) {
			if x.p(25, "caret") && (c.Kind != "findall" || x.p(5, "caretinfindall")) {
				goal = rt.C("^", rt.V(id), goal)
			}
		}
		if x.p(10, "caretcomp") && c.Kind != "findall" {
			goal = rt.C("^", rt.C("f", a, d), goal)
		}
		tmpls := []func() *rt.Term{
			func() *rt.Term { return a },
			func() *rt.Term { return b },
			func() *rt.Term { return rt.C("-", a, b) },
			func() *rt.Term { return rt.C("t", a, b, d) },
			func() *rt.Term { return x.atom() },
			func() *rt.Term { return rt.C("f", x.v()) },
		}
		c.Tmpl = tmpls[x.n(0, len(tmpls)-1, "tmpl")]()
		c.Goal = goal
		c.DQ = []string{"", "", "", "", "", "", "", "", "", "codes", "atom", "codes"}[x.n(0, 11, "dq")]
		c.Assert = x.n(0, 5, "assert") == 5
		c.ViaVar = x.p(30, "viavar")
		c.TmplVia = x.n(0, 7, "tmplvia") == 7
		c.Inner = x.p(50, "innerviavar")
		switch k := x.n(0, 9, "res"); {
		case k < 7:
			c.Res = rt.V(50)
		case k < 8:
			c.Res = rt.List([]*rt.Term{rt.V(51)}, rt.V(52)) // partial list
		case k < 9:
			es := make([]*rt.Term, x.n(0, 3, "bl"))
			for i := range es {
				if x.p(50, "blv") {
					es[i] = rt.V(int64(53 + i))
				} else {
					es[i] = x.val(false)
				}
			}
			c.Res = rt.List(es, nil) // bound list (filters groups)
		default:
			c.Res = rt.List([]*rt.Term{x.val(false)}, nil)
		}
		return c
	})
}

func key(tuple []*rt.Term) string {
	ss := make([]string, len(tuple))
	for i, t := range rt.Canon(tuple) {
		ss[i] = t.String()
	}
	return strings.Join(ss, " | ")
}

// check compares the multiset of answers (one answer = one witness group with its list) with the
// reference; for findall the single answer is compared in order. Also checks directly on the
// real output that goal variables are left unbound by findall and that instances are copies.
func check(c Case) (o diff.Outcome, err error) {
	p := c.program()
	op := diff.DefaultOpts()
	op.MaxAnswers = 60
	rr, _, _ := diff.RunRef(p, op, false)
	o.Ref = rr
	if d := rr.Discard(); d != "" {
		o.Discard = d
		return o, nil
	}
	if rr.Truncated {
		o.Discard = "too many groups"
		return o, nil
	}
	i, lerr := diff.Load(p)
	if lerr != nil {
		return o, lerr
	}
	q, names := p.QueryText()
	got := i.Query(q, names, op.MaxAnswers, rr.Stats.RealBudget())
	o.Real = got
	// termination / error
	switch {
	case rr.Ball != nil:
		if got.Err == nil || got.Err.Kind != "ball" || !rt.Variant(rr.Ball.MaskErrorContext(), got.Err.Ball.MaskErrorContext()) {
			return o, fmt.Errorf("expected error %s, real run: %d answers, err %s", rr.Ball.MaskErrorContext(), len(got.Answers), got.Err)
		}
	default:
		if got.Err != nil {
			return o, fmt.Errorf("real run ended with %s; the reference has %d answers and no error", got.Err, len(rr.Answers))
		}
	}
	// group order is not constrained: compare as multisets of canonical answer tuples
	want := map[string]int{}
	for _, a := range rr.Answers {
		want[key(a)]++
	}
	have := map[string]int{}
	for _, a := range got.Answers {
		have[key(a)]++
	}
	var diffs []string
	for k, n := range want {
		if have[k] != n {
			diffs = append(diffs, fmt.Sprintf("reference has %d x [%s], real %d", n, k, have[k]))
		}
	}
	for k, n := range have {
		if want[k] == 0 {
			diffs = append(diffs, fmt.Sprintf("real has %d x [%s], reference 0", n, k))
		}
	}
	sort.Strings(diffs)
	if len(diffs) > 0 {
		return o, fmt.Errorf("answers (variables %v) differ as multisets: %s", names, strings.Join(diffs, "; "))
	}
	return o, nil
}

var _ = ref.Nil
var _ = sut.MaxNodes

func init() {
	h.Reg("c11", func(c Case) error { _, err := check(c); return err })
}

func TestProp(t *testing.T) {
	r := h.Start(t, "C11")
	defer r.Finish(t)
	r.Rule("rapid-generated programs of facts w/2, w/3 (ground, partially bound, and variant-of-each-other arguments such as f(X,X) vs f(_,_), duplicates) and rules over them; goals = single calls, conjunctions, disjunctions, member/2 over literal lists with variables, goals with a nested findall/bagof/setof; templates sharing any subset of variables with the goal; any subset of goal variables ^-quantified (nested V1^V2^G, a compound f(A,D)^G); result argument unbound / partial list / bound list. One case = one call findall|bagof|setof(Template, Goal, Result) enumerated to exhaustion. Oracle: the reference implementation of ISO 8.10 (free-variable set, witness, bijective variant test, sorted duplicate-free lists for setof). Compared: the multiset of answers, each answer being the bindings of all variables of the call (free variables = the group's witness, Result = the group's list) up to renaming - group order is not compared; final error if any. Non-trivial: >= 2 groups, or a group with a non-ground witness, or a ^ in the goal. Distinct by case.",
		"the reference machine's bagof/setof (DESIGN.md 2.3.1)",
		"group order is not constrained by the property and is not compared")
	if r.Shard() == 0 {
		if err := diff.OracleSelfTest(); err != nil {
			t.Fatalf("%v", err)
		}
		r.LabelN("oracle_self_test_examples", ref.NExamples())
	}
	r.Regress(t)
	if r.Failed() {
		return
	}
	r.Rapid(t, "allsolutions", r.Pick(40000, 1500000), func(t *rapid.T) {
		c := genCase().Draw(t, "case")
		o, err := check(c)
		r.Label("sampled")
		if o.Discard != "" {
			r.Discard(o.Discard)
			return
		}
		r.Eval(1)
		st := o.Ref.Stats
		r.Label("kind:" + c.Kind)
		if st.Groups >= 2 {
			r.Label("groups>=2")
		}
		if st.NongroundWitness > 0 {
			r.Label("nonground_witness")
		}
		if st.CaretUsed > 0 {
			r.Label("caret")
		}
		if c.Nested {
			r.Label("nested_all_solutions")
		}
		if c.ViaVar {
			r.Label("goal_through_bound_variable")
			if c.Inner && c.Goal.Is("^", 2) {
				r.Label("inner_caret_goal_through_bound_variable")
			}
		}
		if o.Ref.Ball != nil {
			r.Label("raises:" + o.Ref.Ball.MaskErrorContext().String())
		}
		if c.Res.K != rt.Var {
			r.Label("result_partially_or_fully_bound")
		}
		if len(o.Ref.Answers) == 0 && o.Ref.Ball == nil {
			r.Label("fails")
		}
		if o.Ref.Ball != nil {
			r.Label("raises")
		}
		if st.Groups >= 2 || st.NongroundWitness > 0 || st.CaretUsed > 0 {
			r.NonTrivial(h.Hash(c), c.Kind, func() any { return c.String() })
		}
		if err != nil {
			r.Fail(t, "c11", c, err)
		}
	})
}

func TestReplay(t *testing.T) { h.Replay(t, "C11") }
func TestKnown(t *testing.T)  { h.KnownRepro(t, "C11") }
