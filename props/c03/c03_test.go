package c03

import (
	"fmt"
	"strings"
	"testing"

	"pgregory.net/rapid"

	"verif/internal/diff"
	"verif/internal/gen"
	"verif/internal/h"
	"verif/internal/ref"
	"verif/internal/rt"
	"verif/internal/sut"
)

// ---- (a) exhaustive control skeletons ---------------------------------------------------------------

var alphabet = []string{
	"n(X)", "m(Y)", "X = 2", "X \\= 1", "!", "fail", "true",
	"call(!)", "call((n(X), !))", "\\+ n(X)", "once(n(X))",
	"(n(X) -> m(Y) ; Y = e)", "(fail -> true ; n(X))",
	"findall(Z, (n(Z), !), _)", "catch((n(X), !), _, true)", "r(X)",
	// appended later (indices of saved cases stay valid): a cut that reaches call/1, \\+ and findall/3
	// through a variable bound before the goal is converted - local to that call, but it does cut there
	"(C = !, call((n(X), C, true)))", "(C = !, \\+ (n(X), C, X > 1))", "(C = !, findall(Z, (n(Z), C, true), [X]))",
	// a disjunction standing directly in the goal position of a cut-opaque construct, a cut in its first disjunct
	"catch((n(X), ! ; X = 7), _, true)", "call((n(X), ! ; X = 7))", "findall(Z, (n(Z), ! ; Z = 7), [X])",
}

var base = []string{"n(1)", "n(2)", "n(3)", "m(a)", "m(b)", "r(X) :- n(X), X > 1, !", "r(9)"}

var queries = []string{"t(X, Y)", "n(A), t(X, Y)", "t(X, Y), n(B)", "once(t(X, Y))", "\\+ t(X, Y)", "(t(X, Y) ; A = alt)"}

// Skel is one skeleton program: bodies are index sequences into the alphabet.
type Skel struct {
	Body1    []int `json:"body1"`
	Body2    []int `json:"body2,omitempty"`
	Second   bool  `json:"second,omitempty"`   // Body2 is a second clause
	Disj     bool  `json:"disj,omitempty"`     // Body2 is the second top-level disjunct of the first clause
	Trailing bool  `json:"trailing,omitempty"` // trailing fact t(e1, e2)
	Query    int   `json:"query"`
	// Shape brackets Body1's conjunction: a preorder list of left-subtree sizes, one per inner node
	// (empty = right-nested as the parser reads "a, b, c").
	Shape []int `json:"shape,omitempty"`
}

// shapes enumerates every bracketing of n goals except the right-nested one.
func shapes(n int) [][]int {
	var rec func(n int) [][]int
	rec = func(n int) [][]int {
		if n <= 1 {
			return [][]int{{}}
		}
		var out [][]int
		for k := 1; k < n; k++ {
			for _, l := range rec(k) {
				for _, r := range rec(n - k) {
					out = append(out, append(append([]int{k}, l...), r...))
				}
			}
		}
		return out
	}
	var out [][]int
	for _, sh := range rec(n) {
		right := true
		for _, k := range sh {
			right = right && k == 1
		}
		if !right {
			out = append(out, sh)
		}
	}
	return out
}

func shapeText(gs []string, shape *[]int) string {
	if len(gs) == 1 {
		return gs[0]
	}
	k := (*shape)[0]
	*shape = (*shape)[1:]
	l := shapeText(gs[:k], shape)
	r := shapeText(gs[k:], shape)
	return "(" + l + ", " + r + ")"
}

func seqText(ix []int) string {
	if len(ix) == 0 {
		return "true"
	}
	gs := make([]string, len(ix))
	for i, k := range ix {
		gs[i] = alphabet[k]
	}
	return strings.Join(gs, ", ")
}

func (s Skel) program() *gen.Program {
	p := &gen.Program{}
	for _, c := range base {
		p.Clauses = append(p.Clauses, gen.MustParse(c))
	}
	switch {
	case s.Disj:
		p.Clauses = append(p.Clauses, gen.MustParse("t(X, Y) :- ( "+seqText(s.Body1)+" ; "+seqText(s.Body2)+" )"))
	case len(s.Shape) > 0:
		gs := make([]string, len(s.Body1))
		for i, k := range s.Body1 {
			gs[i] = alphabet[k]
		}
		sh := append([]int{}, s.Shape...)
		p.Clauses = append(p.Clauses, gen.MustParse("t(X, Y) :- "+shapeText(gs, &sh)))
		if s.Second {
			p.Clauses = append(p.Clauses, gen.MustParse("t(X, Y) :- "+seqText(s.Body2)))
		}
	default:
		p.Clauses = append(p.Clauses, gen.MustParse("t(X, Y) :- "+seqText(s.Body1)))
		if s.Second {
			p.Clauses = append(p.Clauses, gen.MustParse("t(X, Y) :- "+seqText(s.Body2)))
		}
	}
	if s.Trailing {
		p.Clauses = append(p.Clauses, gen.MustParse("t(e1, e2)"))
	}
	p.Query = gen.MustParse(queries[s.Query])
	return p
}

func (s Skel) String() string { return s.program().String() }

// sequences enumerates all index sequences of length 0..L.
func sequences(L int) [][]int {
	out := [][]int{{}}
	prev := [][]int{{}}
	for l := 1; l <= L; l++ {
		var cur [][]int
		for _, p := range prev {
			for k := range alphabet {
				cur = append(cur, append(append([]int{}, p...), k))
			}
		}
		out = append(out, cur...)
		prev = cur
	}
	return out
}

func checkSkel(s Skel) error {
	o := diff.Run(s.program(), diff.DefaultOpts())
	if o.Discard != "" {
		return fmt.Errorf("infrastructure: skeleton discarded by the reference: %s", o.Discard)
	}
	return o.Err
}

// ---- (b) sampled programs -------------------------------------------------------------------------------

var feats = gen.Features{NestedDisj: true, TopDisj: true, Call: true, Cut: true, Ite: true, Neg: true, AllSol: true, Catch: true, Lib: true, Deep: true, Flags: true, Strings: true}

func nontrivial(o diff.Outcome) bool {
	st := o.Ref.Stats
	return st.CutsEffective > 0 || (st.CutLocal > 0 && len(o.Ref.Answers) >= 1 && st.Backtracks > 0)
}

func init() {
	h.Reg("skeleton", checkSkel)
	h.Reg("c03", func(p *gen.Program) error {
		o := diff.Run(p, diff.DefaultOpts())
		if o.Discard != "" {
			return nil
		}
		return o.Err
	})
}

func TestProp(t *testing.T) {
	r := h.Start(t, "C03")
	defer r.Finish(t)
	r.Rule("(a) every control skeleton up to the size bound: programs t/2 of one clause, two clauses, or one clause with a top-level disjunctive body, optionally a trailing fact, bodies = all sequences up to length L over a 22-goal alphabet (nondeterministic sources, tests, !, fail, call(!), call((n(X),!)), \\+, once, if-then-else, findall and catch with an inner cut, a callee that cuts, a cut reaching call/1, \\+ and findall/3 through a variable bound beforehand, a disjunction with a cut in its first disjunct directly under catch/3, call/1, findall/3), each under 6 queries (plain, after a nondeterministic goal, before one, under once, under \\+, as left disjunct); quick: first body L<=2, second L<=1; thorough: L<=3 single, L<=2 x L<=2 pairs; plus every non-right-nested bracketing ((a,b),c), (((a,b),c),d), ((a,b),(c,d)) ... of 3..4 (thorough 5) goals from {n(X), m(Y), X\\=1, !, true} holding a cut, with a trailing fact or a second clause. (b) rapid-sampled larger programs with cuts as direct conjuncts of clause bodies / top-level disjuncts and inside call/N, \\+, once, findall/bagof/setof, catch, with if-then-else, recursion templates with cuts (first solution, cut in a recursive clause, repeat...!, double cut, cut in the last clause). Oracle: the reference machine's ISO cut semantics; compared: answer sequence and termination. Non-trivial: the reference executed a cut that removed at least one choice point, or a cut-opaque construct in a run that backtracked and answered. Distinct by program and query.",
		"the reference machine's cut-barrier model (DESIGN.md 2.3.1)",
		"only the cut placements for which the property claims clause-level cut are generated: a bare ! is never placed inside a branch of -> or a nested ;")
	if r.Shard() == 0 {
		if err := diff.OracleSelfTest(); err != nil {
			t.Fatalf("%v", err)
		}
		r.LabelN("oracle_self_test_examples", ref.NExamples())
	}
	r.Regress(t)
	if r.Failed() {
		return
	}
	L1, L2 := 2, 1
	if !r.Quick() {
		L1, L2 = 3, 2
	}
	idx, cases := 0, 0
	// one program = one loaded interpreter, all queries (the skeleton programs have no side effects)
	runProg := func(s Skel) {
		idx++
		if !r.Mine(idx) || r.Failed() {
			return
		}
		var ip *sut.I
		for q := range queries {
			s.Query = q
			cases++
			r.Eval(1)
			p := s.program()
			rr, _, _ := diff.RunRef(p, diff.DefaultOpts(), false)
			if d := rr.Discard(); d != "" {
				r.Discard(d)
				continue
			}
			if ip == nil {
				var err error
				if ip, err = diff.Load(p); err != nil {
					r.Fail(t, "skeleton", s, err)
				}
			}
			o := diff.RunLoaded(ip, p, diff.DefaultOpts(), diff.Outcome{Ref: rr})
			if nontrivial(o) {
				r.NonTrivial(h.Hash(s), fmt.Sprintf("skel:q%d:%v:%v", s.Query, s.Second, s.Disj), func() any { return s.String() })
			}
			if o.Err != nil {
				r.Fail(t, "skeleton", s, o.Err)
			}
		}
	}
	for _, b1 := range sequences(L1) {
		runProg(Skel{Body1: b1})
		runProg(Skel{Body1: b1, Trailing: true})
	}
	pairL := 2
	for _, b1 := range sequences(pairL) {
		for _, b2 := range sequences(L2) {
			runProg(Skel{Body1: b1, Body2: b2, Second: true})
			runProg(Skel{Body1: b1, Body2: b2, Disj: true})
		}
	}
	// bracketings: every non-right-nested association of 3..LB goals over a reduced alphabet, bodies with a cut
	small := []int{0, 1, 3, 4, 6} // n(X), m(Y), X \\= 1, !, true
	LB := 4
	if !r.Quick() {
		LB = 5
	}
	for n := 3; n <= LB; n++ {
		var seqs [][]int
		var rec func(pre []int)
		rec = func(pre []int) {
			if len(pre) == n {
				for _, k := range pre {
					if k == 4 {
						seqs = append(seqs, append([]int{}, pre...))
						return
					}
				}
				return
			}
			for _, k := range small {
				rec(append(pre, k))
			}
		}
		rec(nil)
		for _, sh := range shapes(n) {
			for _, b := range seqs {
				runProg(Skel{Body1: b, Shape: sh, Trailing: true})
				if n <= 4 {
					runProg(Skel{Body1: b, Shape: sh, Body2: []int{0}, Second: true})
				}
			}
		}
	}
	if r.Failed() {
		return
	}
	r.LabelN("skeleton_cases", cases)
	r.Exhaustive(fmt.Sprintf("control skeletons: single clause bodies up to length %d, clause pairs and top-level disjunctions up to length 2 x %d, 6 queries each", L1, L2))

	r.Rapid(t, "programs", r.Pick(40000, 1500000), func(t *rapid.T) {
		p := gen.GenProgram(feats).Draw(t, "program")
		o := diff.Run(p, diff.DefaultOpts())
		r.Label("sampled")
		if p.DQ != "" || p.UnknownFail {
			r.Label("with_non_default_flags")
		}
		if p.Deep {
			r.Label("with_a_deep_recursion")
		}
		if o.Discard != "" {
			r.Discard(o.Discard)
			return
		}
		r.Eval(1)
		st := o.Ref.Stats
		if st.CutsEffective > 0 {
			r.Label("effective_cut")
		}
		if st.CutLocal > 0 {
			r.Label("cut_opaque_construct")
		}
		if o.Ref.Ball != nil {
			r.Label("ends_with_error")
		}
		if nontrivial(o) {
			r.NonTrivial(h.Hash(p), "sampled", func() any { return p.String() })
		}
		if o.Err != nil {
			r.Fail(t, "c03", p, o.Err)
		}
	})
}

var _ = rt.Nil

func TestReplay(t *testing.T) { h.Replay(t, "C03") }
func TestKnown(t *testing.T)  { h.KnownRepro(t, "C03") }
