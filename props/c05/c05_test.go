package c05

import (
	"bufio"
	"encoding/json"
	"errors"
	"fmt"
	"io"
	"io/fs"
	"os"
	"os/exec"
	"runtime/debug"
	"strings"
	"syscall"
	"testing"
	"time"

	"github.com/ichiban/prolog"
	"github.com/ichiban/prolog/engine"
	"pgregory.net/rapid"

	"verif/internal/h"
	"verif/internal/rt"
	"verif/internal/sut"
)

// Case "text": bytes handed to Exec and to Query. Case "goal": Pred(Args...) with argument shapes (text).
type Case struct {
	Kind string   `json:"kind"`
	Text []byte   `json:"text,omitempty"`
	Pred string   `json:"pred,omitempty"`
	Args []string `json:"args,omitempty"`
	// Pre: queries run first on the same interpreter (flag and table changes a program may have made earlier);
	// their outcome is not judged
	Pre []string `json:"pre,omitempty"`
}

func (c Case) String() string {
	if c.Kind == "text" {
		return fmt.Sprintf("Exec/Query(%q)", c.Text)
	}
	if len(c.Pre) > 0 {
		return strings.Join(c.Pre, " ") + " then " + c.goal()
	}
	return c.goal()
}

func quoteName(s string) string {
	return "'" + strings.NewReplacer("\\", "\\\\", "'", "\\'").Replace(s) + "'"
}

func (c Case) goal() string {
	g := quoteName(c.Pred)
	if len(c.Args) > 0 {
		g += "(" + strings.Join(c.Args, ", ") + ")"
	}
	return g
}

// mustReturn: the goals for which exhausting the step budget is "does not return" rather than a legitimately endless
// search (append(L, a, L) with L partial has an infinite failing search; so may any relation over a partial argument):
// every argument is ground when the goal is called, or the goal is phrase/2,3 with an unbound grammar body, which has
// nothing to search (it used to call itself forever: repair 0122639).
func mustReturn(c Case) bool {
	if c.Pred == "phrase" && len(c.Args) >= 2 && c.Args[0] == "_" {
		return true
	}
	for _, a := range c.Args {
		if a == "LB" || a == "SB" || a == "S0" {
			continue
		}
		if strings.ContainsAny(a, "_ABCDEFGHIJKLMNOPQRSTUVWXYZ") {
			return false
		}
	}
	return len(c.Pre) == 0
}

// boundShapes: argument shapes that are variables bound before the goal runs (a list whose spine goes through a
// bound variable is not the same Go value as the list written out).
const boundPrefix = "LB = [a|TB0], TB0 = [b], PB = [a|TB1], TB1 = [b|_], SB = \"ab\", FB = f(XB), XB = 1, "

// query: the goal with its unbound arguments named, followed by a traversal of whatever they were bound to
// (a result that cannot be walked is as bad as a call that does not return).
func (c Case) query() string {
	args := append([]string{}, c.Args...)
	var outs []string
	for k, a := range args {
		if a == "_" {
			args[k] = fmt.Sprintf("O%d", k)
			outs = append(outs, args[k])
		}
	}
	g := quoteName(c.Pred)
	if len(args) > 0 {
		g += "(" + strings.Join(args, ", ") + ")"
	}
	q := "current_output(S0), " + boundPrefix + g
	if len(outs) > 0 {
		q += ", (ground(t(" + strings.Join(outs, ", ") + ")) -> true ; true)"
	}
	return q + "."
}

// Reply of a worker for one case.
type Reply struct {
	Violation string `json:"violation,omitempty"`
	Class     string `json:"class,omitempty"` // what happened (for the class histogram)
	Tokens    int    `json:"tokens,omitempty"`
	Reached   bool   `json:"reached,omitempty"`
}

const (
	memLimit    = 1 << 30
	caseTimeout = 60 * time.Second
	stepBudget  = 150000
)

var isoFormals = map[string]int{"instantiation_error": 0, "type_error": 2, "domain_error": 2, "existence_error": 2, "permission_error": 3,
	"representation_error": 1, "evaluation_error": 1, "resource_error": 1, "syntax_error": 1, "system_error": 0}

var validTypes = map[string]bool{"atom": true, "atomic": true, "byte": true, "callable": true, "character": true, "compound": true, "evaluable": true,
	"float": true, "in_byte": true, "in_character": true, "integer": true, "list": true, "number": true, "pair": true, "predicate_indicator": true, "variable": true}
var validDomains = map[string]bool{"character_code_list": true, "close_option": true, "flag_value": true, "io_mode": true, "non_empty_list": true, "not_less_than_zero": true,
	"operator_priority": true, "operator_specifier": true, "prolog_flag": true, "read_option": true, "source_sink": true, "stream": true, "stream_option": true,
	"stream_or_alias": true, "stream_position": true, "stream_property": true, "write_option": true, "order": true}

// classify checks one returned error; "" = acceptable.
func classify(err error, io bool) (violation, class string) {
	if err == nil {
		return "", "no_error"
	}
	if errors.Is(err, sut.ErrBudget) {
		return "", "step_budget"
	}
	var ex engine.Exception
	if errors.As(err, &ex) {
		t := sut.Convert(ex.Term(), nil)
		if !t.Is("error", 2) {
			return fmt.Sprintf("raised the non-error ball %s", t), ""
		}
		f := t.A[0]
		name, ar := f.S, len(f.A)
		if f.K != rt.Atom && f.K != rt.Comp {
			return fmt.Sprintf("raised error(%s, _): the formal is not an ISO error term", f), ""
		}
		if n, ok := isoFormals[name]; !ok || n != ar {
			return fmt.Sprintf("raised error(%s, _): %s/%d is not one of the ISO formal error terms", f, name, ar), ""
		}
		switch name {
		case "type_error":
			if f.A[0].K != rt.Atom || !validTypes[f.A[0].S] {
				return fmt.Sprintf("raised %s: %s is not an ISO ValidType", f, f.A[0]), ""
			}
		case "domain_error":
			if f.A[0].K != rt.Atom || !validDomains[f.A[0].S] {
				return fmt.Sprintf("raised %s: %s is not an ISO ValidDomain", f, f.A[0]), ""
			}
		}
		return "", "error:" + name
	}
	msg := err.Error()
	if strings.HasPrefix(msg, "panic:") {
		return "returned the residue of a recovered Go panic: " + msg, ""
	}
	var pe *fs.PathError
	var errno syscall.Errno
	switch {
	case strings.HasPrefix(msg, "verif: halt"):
		return "", "halt_replaced"
	case errors.As(err, &pe), errors.As(err, &errno), errors.Is(err, os.ErrClosed), errors.Is(err, io_EOF), errors.Is(err, fs.ErrNotExist), errors.Is(err, fs.ErrInvalid), errors.Is(err, fs.ErrPermission):
		return "", "os_error" // about the environment, not about the arguments
	}
	if io {
		return "", "io_error:" + firstWord(msg)
	}
	return "returned the Go error " + fmt.Sprintf("%q (%T)", msg, err) + " instead of an error(Formal, Context) term", ""
}

var io_EOF = io.EOF

func firstWord(s string) string {
	if i := strings.IndexAny(s, " :"); i > 0 {
		return s[:i]
	}
	return s
}

var ioPreds = map[string]bool{"open": true, "close": true, "flush_output": true, "consult": true, ".": true, "ensure_loaded": true, "include": true,
	"set_stream_position": true, "put_char": true, "put_byte": true, "nl": true, "write": true, "writeq": true, "print": true, "write_canonical": true, "write_term": true,
	"get_char": true, "get_byte": true, "peek_char": true, "peek_byte": true, "read": true, "read_term": true, "set_input": true, "set_output": true}

// execute runs one case in this process (the worker).
func execute(c Case) Reply {
	switch c.Kind {
	case "text":
		var rep Reply
		s := string(c.Text)
		// Exec
		i := sut.New()
		if v, cl := classifyText(i.P.ExecContext(sut.NewStepCtx(stepBudget, nil), s)); v != "" {
			return Reply{Violation: "Exec " + v}
		} else {
			rep.Class = "exec:" + cl
		}
		// Query
		i = sut.New()
		sols, err := i.P.QueryContext(sut.NewStepCtx(stepBudget, nil), s)
		if err != nil {
			if v, _ := classifyText(err); v != "" {
				return Reply{Violation: "Query " + v}
			}
			return rep
		}
		for k := 0; k < 3 && sols.Next(); k++ {
		}
		err = sols.Err()
		_ = sols.Close()
		if v, _ := classifyText(err); v != "" {
			return Reply{Violation: "Query " + v}
		}
		rep.Reached = true
		return rep
	case "goal":
		i := sut.New()
		for _, pq := range c.Pre {
			if sols, err := i.P.QueryContext(sut.NewStepCtx(stepBudget, nil), pq); err == nil {
				sols.Next()
				_ = sols.Close()
			}
		}
		// S0 is an open stream term for the 'stream' shape
		q := c.query()
		sols, err := i.P.QueryContext(sut.NewStepCtx(stepBudget, nil), q)
		if err != nil {
			return Reply{Class: "parse_error"}
		}
		for k := 0; k < 3 && sols.Next(); k++ {
		}
		err = sols.Err()
		_ = sols.Close()
		v, cl := classify(err, ioPreds[c.Pred])
		if c.Pred == "throw" && strings.Contains(v, "non-error ball") {
			v, cl = "", "user_ball" // the ball of throw/1 is the user's
		}
		if cl == "step_budget" && mustReturn(c) {
			v = fmt.Sprintf("did not return within %d steps", stepBudget)
		}
		if v != "" {
			return Reply{Violation: c.goal() + " " + v}
		}
		return Reply{Class: cl, Reached: true}
	}
	return Reply{Violation: "infrastructure: unknown case kind"}
}

// classifyText: for arbitrary text every outcome is fine except a panic residue (syntax errors may be plain Go errors).
func classifyText(err error) (string, string) {
	if err == nil {
		return "", "ok"
	}
	if strings.HasPrefix(err.Error(), "panic:") {
		return "returned the residue of a recovered Go panic: " + err.Error(), ""
	}
	if errors.Is(err, sut.ErrBudget) {
		return "", "step_budget"
	}
	var ex engine.Exception
	if errors.As(err, &ex) {
		return "", "exception"
	}
	return "", "go_error"
}

// TestWorker is the worker process: JSON cases on stdin, JSON replies on stdout.
func TestWorker(t *testing.T) {
	if os.Getenv("VERIF_WORKER") == "" {
		t.Skip("not a worker")
	}
	debug.SetMemoryLimit(memLimit)
	if dir := os.Getenv("VERIF_WORKDIR"); dir != "" {
		_ = os.Chdir(dir)
		for name, text := range loadFiles {
			_ = os.WriteFile(name, []byte(text), 0o644)
		}
	}
	in := bufio.NewReaderSize(os.Stdin, 1<<20)
	out := bufio.NewWriter(os.Stdout)
	for {
		line, err := in.ReadBytes('\n')
		if len(line) > 0 {
			var c Case
			if e := json.Unmarshal(line, &c); e != nil {
				fmt.Fprintf(out, "{\"violation\":\"infrastructure: bad case: %v\"}\n", e)
			} else {
				rep := execute(c)
				b, _ := json.Marshal(rep)
				out.WriteString("REPLY " + string(b) + "\n")
			}
			out.Flush()
		}
		if err != nil {
			return
		}
	}
}

// ---- parent side: worker management ---------------------------------------------------------------------

type worker struct {
	cmd   *exec.Cmd
	in    io.WriteCloser
	out   *bufio.Reader
	lines chan string
	dir   string
	log   *strings.Builder
}

func startWorker() (*worker, error) {
	dir, err := os.MkdirTemp("", "c05-work-")
	if err != nil {
		return nil, err
	}
	exe, err := os.Executable()
	if err != nil {
		return nil, err
	}
	cmd := exec.Command("/bin/sh", "-c", fmt.Sprintf("ulimit -v %d; exec \"$0\" \"$@\"", 6*1024*1024), exe, "-test.run", "^TestWorker$", "-test.timeout", "0")
	cmd.Env = append(os.Environ(), "VERIF_WORKER=1", "VERIF_WORKDIR="+dir, "GOMEMLIMIT=1GiB", "GOMAXPROCS=2")
	in, _ := cmd.StdinPipe()
	outp, _ := cmd.StdoutPipe()
	var logb strings.Builder
	cmd.Stderr = &limitedWriter{b: &logb}
	if err := cmd.Start(); err != nil {
		return nil, err
	}
	w := &worker{cmd: cmd, in: in, out: bufio.NewReaderSize(outp, 1<<20), lines: make(chan string, 16), dir: dir, log: &logb}
	go func() {
		defer close(w.lines)
		for {
			l, err := w.out.ReadString('\n')
			if strings.HasPrefix(l, "REPLY ") {
				w.lines <- strings.TrimSpace(l[6:])
			} else if len(l) > 0 && logb.Len() < 20000 {
				logb.WriteString(l)
			}
			if err != nil {
				return
			}
		}
	}()
	return w, nil
}

type limitedWriter struct{ b *strings.Builder }

func (l *limitedWriter) Write(p []byte) (int, error) {
	if l.b.Len() < 20000 {
		l.b.Write(p)
	}
	return len(p), nil
}

func (w *worker) stop() {
	if w == nil {
		return
	}
	_ = w.in.Close()
	_ = w.cmd.Process.Kill()
	_, _ = w.cmd.Process.Wait()
	_ = os.RemoveAll(w.dir)
}

// run sends one case; died/hung report a worker that crashed or did not answer within the watchdog.
func (w *worker) run(c Case) (rep Reply, died, hung bool) {
	b, _ := json.Marshal(c)
	if _, err := w.in.Write(append(b, '\n')); err != nil {
		return rep, true, false
	}
	select {
	case l, ok := <-w.lines:
		if !ok {
			return rep, true, false
		}
		if err := json.Unmarshal([]byte(l), &rep); err != nil {
			rep.Violation = "infrastructure: bad reply " + l
		}
		return rep, false, false
	case <-time.After(caseTimeout):
		return rep, false, true
	}
}

var theWorker *worker

// check runs a case in a worker process; a crash or a hang of the worker is the violation.
func check(c Case) (Reply, error) {
	if theWorker == nil {
		w, err := startWorker()
		if err != nil {
			return Reply{}, fmt.Errorf("infrastructure: cannot start a worker: %v", err)
		}
		theWorker = w
	}
	rep, died, hung := theWorker.run(c)
	switch {
	case died:
		log := tailOf(theWorker.log.String(), 12)
		theWorker.stop()
		theWorker = nil
		return rep, fmt.Errorf("the Go process died while handling %s: %s", c, log)
	case hung:
		theWorker.stop()
		theWorker = nil
		return rep, fmt.Errorf("the call did not return within %v for %s (the process was wedged)", caseTimeout, c)
	case strings.HasPrefix(rep.Violation, "infrastructure:"):
		return rep, fmt.Errorf("%s", rep.Violation)
	case rep.Violation != "":
		return rep, fmt.Errorf("%s", rep.Violation)
	}
	return rep, nil
}

func tailOf(s string, n int) string {
	lines := strings.Split(strings.TrimSpace(s), "\n")
	var keep []string
	for _, l := range lines {
		if strings.Contains(l, "fatal error") || strings.Contains(l, "panic:") || strings.Contains(l, "runtime:") || strings.Contains(l, "goroutine stack exceeds") {
			keep = append(keep, strings.TrimSpace(l))
		}
	}
	if len(keep) == 0 {
		if len(lines) > n {
			lines = lines[:n]
		}
		keep = lines
	}
	if len(keep) > n {
		keep = keep[:n]
	}
	return strings.Join(keep, " | ")
}

func init() {
	h.Reg("c05", func(c Case) error { _, err := check(c); return err })
}

// ---- generators -----------------------------------------------------------------------------------------

var tokens = []string{
	"a", "foo", "X", "_", "_G1", "Abc", "1", "0", "42", "1.5", "1.0e10", "1e", "0'a", "0'", "0''", "0x1F", "0b", "0o7", "0'\\n",
	"(", ")", "[", "]", "{", "}", ",", "|", ".", " ", "\n", "\t", ". ", ".\n",
	"+", "-", "*", "/", "\\", "^", "=", "<", ">", ":-", "-->", "?-", "->", ";", "!", "\\+", "=..", "is", "mod", "//", "**", "- ", " - ", "--", "@", "#", "&", "$",
	"'", "'a'", "'a b'", "''", "'\\n'", "'\\x41\\'", "'\\", "'\\x", "\"", "\"ab\"", "\"\\", "\"\\x", "`", "`a`",
	"%", "% c\n", "/*", "*/", "/* c */", "/**/",
	"f(", "f(a", "f(a,", "f(a)", "[a", "[a,", "[a|", "[a|b", "[a|b]", "{a", "- (", "-(", "a:-", ":- a", "a:-b", "X = [-", "X = {-", "[-", "{-",
	"é", "日本", "😀", "\x00", "\xff", "\xc3", "\u00a0", "\u2028", "\ufeff",
	"end_of_file", "op(200,xfx,a)", "halt", "X = 1", "foo(X) :- bar(X)", ":- dynamic(foo/1)", "a --> b",
	// directives that load the files of the scratch directory (files that load or include themselves or each other)
	":- dynamic(/(foo)).\n", ":- dynamic(foo-1).\n", ":- dynamic(foo/a).\n", ":- discontiguous('/'(a,b,c)).\n", ":- multifile(foo).\n", ":- dynamic(_).\n", ":- dynamic([foo/1|_]).\n", ":- dynamic((a/1, /(b))).\n", ":- dynamic(1/1).\n", ":- dynamic(foo/(-1)).\n", ":- initialization(_).\n", ":- initialization(1).\n", ":- op(_, xfx, a).\n", ":- set_prolog_flag(_, _).\n", ":- ensure_loaded(_).\n", ":- include(1).\n",
	":- include(selfinc).\n", ":- ensure_loaded(selfload).\n", ":- consult(selfc).\n", ":- include(inc_a).\n", ":- ensure_loaded(mutual_a).\n", ":- include(plain).\n", ":- include(bad).\n", ":- initialization(consult(selfinc)).\n", "consult(selfinc)", "[selfload]",
	// digits, letters and symbols outside ASCII
	"٣", "３", "१२", "n(٣)", "X = ３", "٣.٣", "0'٣", "Ⅷ", "²", "ǅ", "ʰ", "€", "∀", "X is ٣ + 1",
}

func u(t *rapid.T, n int, l string) int { return int(rapid.Uint64().Draw(t, l) % uint64(n)) }

func genText() *rapid.Generator[Case] {
	return rapid.Custom(func(t *rapid.T) Case {
		var b strings.Builder
		switch u(t, 10, "textkind") {
		case 0:
			return Case{Kind: "text", Text: rapid.SliceOfN(rapid.Byte(), 0, 40).Draw(t, "bytes")}
		default:
			for k, n := 0, 1+u(t, 12, "ntokens"); k < n; k++ {
				b.WriteString(tokens[u(t, len(tokens), "tok")])
				if u(t, 4, "space") == 0 {
					b.WriteString(" ")
				}
			}
		}
		s := b.String()
		// truncation at every position is where the look-ahead buffers can get out of step
		if len(s) > 0 && u(t, 3, "truncate") == 0 {
			s = s[:u(t, len(s)+1, "cut")]
		}
		if u(t, 3, "end") == 0 {
			s += "."
		}
		return Case{Kind: "text", Text: []byte(s)}
	})
}

var shapes = []string{
	"_", "a", "''", "[]", "0", "1", "-1", "255", "256", "2147483648", "9223372036854775807", "-9223372036854775808",
	"LB", "PB", "SB", "FB",
	// the empty atom and other odd atoms as operands of symbolic and alphanumeric operators
	"1 mod ''", "'' mod 1", "- ''", "'' - ''", "1 is ''", "'' rem ''", "\\+ ''", "'' = ''", "[''|'']", "- (-)", "mod mod mod", "'' : ''", "f('', - '')",
	"selfload", "selfc", "selfinc", "mutual_a", "inc_a", "plain", "bad", "'selfinc.pl'", "[selfinc]", "[plain, selfload]", "no_such_file",
	"1.5", "-0.0", "1.0e308", "f(a)", "f(_)", "[a,b]", "[a|_]", "[a|b]", "\"ab\"", "[97,98]", "[a,_]", "user_input", "user_output", "S0",
	"true", "(a,b)", "(a,1)", "a/1", "foo/0", "foo/(-1)", "a-1", "[a-1,b-2]", "[x=_]", "[quoted(true)]", "'1'", "read", "write", "append", "xfx", "fy", "200", "1200", "1201",
	"[foo/1]", "{x}", "- 1", "[_|_]", "end_of_file", "text", "binary", "[type(binary)]", "[alias(user_input)]", "max_integer", "bounded", "double_quotes", "codes",
	// evaluable expressions at their error boundaries
	"1 << -1", "1 >> -1", "1 << 64", "1 // 0", "1 mod 0", "-9223372036854775808 // -1", "9223372036854775807 + 1", "1.0e308 * 10", "foo + 1", "2 ^ -1", "0 ^ -1", "0 ** -1", "_ + 1", "1 rdiv 2",
	// characters and codes outside ASCII / outside Unicode
	"'٣'", "\"٣\"", "[1635]", "[0'٣]", "'３'", "[55296]", "[1114112]", "[-1]", "4294967393", "'😀'", "\"\"",
}

type proc struct {
	Name  string
	Arity int
}

// loadFiles exist in the worker's scratch directory: files that load, consult or include themselves or each other.
var loadFiles = map[string]string{
	"selfload.pl": ":- ensure_loaded(selfload).\nsl.\n",
	"selfc.pl":    ":- consult(selfc).\nsc.\n",
	"selfinc.pl":  ":- include(selfinc).\nsi.\n",
	"mutual_a.pl": ":- ensure_loaded(mutual_b).\nma.\n",
	"mutual_b.pl": ":- ensure_loaded(mutual_a).\nmb.\n",
	"inc_a.pl":    ":- include(inc_b).\nia.\n",
	"inc_b.pl":    ":- include(inc_a).\nib.\n",
	"plain.pl":    "pl(1).\npl(2).\n",
	"bad.pl":      "foo(.\n",
}

// preludes: state changes a program may have made before the goal runs.
var preludes = []string{
	"set_prolog_flag(unknown, warning).", "set_prolog_flag(unknown, fail).", "set_prolog_flag(unknown, error).",
	"set_prolog_flag(double_quotes, codes).", "set_prolog_flag(double_quotes, atom).", "set_prolog_flag(double_quotes, chars).",
	"set_prolog_flag(char_conversion, on).", "set_prolog_flag(debug, on).",
	"char_conversion(a, b).", "op(200, xfy, foo).", "op(0, yfx, +).", "op(700, xfx, [a, b]).",
	"assertz(foo(1)).", "assertz((foo(X) :- bar(X))).", "assertz((term_expansion(X, X) :- fail)).", "assertz((goal_expansion(X, X) :- fail)).",
	"set_input(user_input).", "open(scratch_file, write, _, [alias(zz)]).", "close(user_output).", "set_output(user_error).",
}

func procedures() []proc {
	p := prolog.New(strings.NewReader(""), io.Discard)
	var out []proc
	for _, pr := range p.VerifProcedures() {
		if pr.Name == "halt" { // excluded by the property
			continue
		}
		out = append(out, proc{pr.Name, pr.Arity})
	}
	return out
}

func nontrivialGoal(c Case) bool {
	for _, a := range c.Args {
		if a != "_" {
			return true
		}
	}
	return false
}

func TestProp(t *testing.T) {
	r := h.Start(t, "C05")
	defer r.Finish(t)
	defer func() { theWorker.stop() }()
	procs := procedures()
	r.Rule(fmt.Sprintf("every case runs in a worker process (memory limit %d MiB through debug.SetMemoryLimit and ulimit, scratch working directory, empty user_input, halt/0,1 replaced, step budget %d per call, watchdog %v per case): the death of the worker (fatal stack overflow, unrecovered panic, out of memory) or a call that does not return is the violation. (a) text: rapid-generated token soups from the lexer's classes (names, variables, numbers incl. 0' forms, brackets, operators, quotes with complete and truncated escapes, comments, truncated compounds such as 'X = [-', multi-byte and invalid UTF-8), cut at a drawn position, and raw byte strings, handed to Exec and to Query (3 answers, Close): the call returns and no returned error is the residue of a recovered Go panic (prefix 'panic:'). (b) goals: for every procedure reported by the VerifProcedures hook (%d registered; halt excluded) the goal p(t1..tn) with argument shapes drawn from %d shapes (unbound, atoms, '', [], integers incl. extremes, floats, compounds, proper/partial/improper lists, strings, code lists, stream aliases, an open stream term, callable and non-callable bodies, predicate indicators, pairs, option lists, operator specifiers and priorities, flags) - quick: sampled tuples plus the cross product for arity <= 2 over the 13 most hostile shapes; thorough: the complete cross product for arity <= 2. A returned error must be an engine.Exception whose term is error(Formal, _) with Formal one of the ISO formal error terms (ISO type / domain atoms in the first argument), never a panic residue; raw OS errors (fs.PathError, errno) of the I/O predicates are about the environment and accepted. Non-trivial: (a) a text of >= 3 tokens, (b) a goal with >= 1 non-variable argument that reached the predicate. Distinct by case.", memLimit>>20, stepBudget, caseTimeout, len(procs), len(shapes)),
		"for program texts the step budget hit counts as long-running, not as a violation; for a goal whose arguments are all ground (and for phrase/2,3 with an unbound body) it is the violation 'does not return'", "cyclic terms and halt/0,1 are excluded by the property; which error is raised when several apply is not asserted")
	r.Regress(t)
	if r.Failed() {
		return
	}
	fail := func(tt h.TB, c Case, err error) {
		// a dead or wedged worker is replaced; shrinking proceeds with fresh workers
		r.Fail(tt, "c05", c, err)
	}
	{
		// the predicate x shape matrix for arity <= 2: complete in the thorough tier, over the dozen most hostile
		// shapes in the quick tier
		matrixShapes := shapes
		if r.Quick() {
			matrixShapes = []string{"_", "''", "[]", "a", "0", "-1", "9223372036854775807", "1.5", "f(_)", "[a|_]", "\"ab\"", "foo/0", "LB"}
		}
		idx := 0
		for _, pr := range procs {
			if pr.Arity > 2 {
				continue
			}
			var rec func(args []string)
			rec = func(args []string) {
				if len(args) == pr.Arity {
					idx++
					if !r.Mine(idx) {
						return
					}
					c := Case{Kind: "goal", Pred: pr.Name, Args: append([]string{}, args...)}
					rep, err := check(c)
					r.Eval(1)
					if rep.Reached && nontrivialGoal(c) {
						r.NonTrivial(h.Hash(c), "matrix", func() any { return c.String() })
					}
					if err != nil {
						fail(t, c, err)
					}
					return
				}
				for _, s := range matrixShapes {
					rec(append(args, s))
				}
			}
			rec(nil)
		}
		r.LabelN("matrix_goals", idx/r.NShards())
		r.Exhaustive(fmt.Sprintf("predicate x argument-shape matrix for every registered procedure of arity <= 2 over %d shapes", len(matrixShapes)))
	}
	r.Rapid(t, "goals", r.Pick(40000, 1500000), func(t *rapid.T) {
		pr := procs[u(t, len(procs), "proc")]
		if u(t, 25, "undefined") == 0 { // a procedure that does not exist
			pr = proc{"undefined_zz", u(t, 3, "uar")}
		}
		c := Case{Kind: "goal", Pred: pr.Name}
		for k := 0; k < pr.Arity; k++ {
			switch w := u(t, 20, "shapeclass"); {
			case pr.Arity >= 2 && w >= 15: // an unbound argument (most predicates of several arguments have an output)
				c.Args = append(c.Args, "_")
			case w >= 12 && w < 15: // a variable bound beforehand
				c.Args = append(c.Args, []string{"LB", "PB", "SB", "FB"}[u(t, 4, "bound")])
			default:
				c.Args = append(c.Args, shapes[u(t, len(shapes), "shape")])
			}
		}
		if u(t, 4, "pre") == 0 {
			for k, n := 0, 1+u(t, 2, "npre"); k < n; k++ {
				c.Pre = append(c.Pre, preludes[u(t, len(preludes), "prelude")])
			}
			r.Label("goal_after_flag_or_table_change")
		}
		rep, err := check(c)
		r.Label("sampled_goal")
		r.Eval(1)
		if rep.Class != "" {
			r.Label("goal:" + rep.Class)
		}
		if rep.Reached && nontrivialGoal(c) {
			r.NonTrivial(h.Hash(c), "goal:"+rep.Class, func() any { return c.String() })
		}
		if err != nil {
			fail(t, c, err)
		}
	})
	r.Rapid(t, "texts", r.Pick(60000, 1500000), func(t *rapid.T) {
		c := genText().Draw(t, "text")
		rep, err := check(c)
		r.Label("sampled_text")
		r.Eval(2)
		if rep.Class != "" {
			r.Label("text:" + rep.Class)
		}
		if len(strings.Fields(string(c.Text))) >= 3 || len(c.Text) >= 8 {
			r.NonTrivial(h.Hash(c), "text:"+rep.Class, func() any { return c.String() })
		}
		if err != nil {
			fail(t, c, err)
		}
	})
}

func TestReplay(t *testing.T) {
	defer func() { theWorker.stop() }()
	h.Replay(t, "C05")
}
func TestKnown(t *testing.T) { h.KnownRepro(t, "C05") }
