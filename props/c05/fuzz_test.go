package c05

import (
	"encoding/json"
	"os"
	"path/filepath"
	"runtime/debug"
	"testing"

	"verif/internal/h"
)

// Native coverage-guided fuzzing (thorough tier only, under a wall-clock budget whose expiry means
// "nothing found"). The oracle is the same as for the generated texts: Exec and Query return, and
// no returned error is a panic residue. A crash of the fuzz worker process (fatal stack overflow)
// is detected by Go's fuzzing coordinator, which saves the input; the driver turns it into a
// replay file.

var seeds = []string{
	"X = [-", "X = {-", "0'", "\"\\x", "'\\", "- (", "foo(", "[a|", "/*", "a :- b, c.", "X is 1 << -1.", "p --> [a], !, q.",
	":- dynamic(foo/1).", "foo(X) :- bar(X, \"str\", 0'c, 1.0e10, [H|T]).", "X = 'hello world', Y = \"abc\", Z = `x`.",
	"catch(throw(x), E, true).", "findall(X, member(X, [1,2,3]), L).", "atom_length(abc, L).", "X = f(A, B, A), copy_term(X, Y).",
	"op(200, xfy, &&), X = (a && b && c).", "X = [1,2|T], T = [3].", "a.b.c.", "...", "X = '\\x41\\'.", "X = 0x1F + 0b101 + 0o17 + 0'a.",
}

func failFile(c Case, msg string) {
	dir := os.Getenv("VERIF_FUZZFAIL")
	if dir == "" {
		return
	}
	b, _ := json.Marshal(c)
	s, _ := json.MarshalIndent(h.Saved{Property: "C05", Check: "c05", Message: msg, Case: b}, "", " ")
	_ = os.WriteFile(filepath.Join(dir, "fuzzfail-"+hash(b)+".json"), s, 0o644)
}

func hash(b []byte) string {
	x := h.Hash(b)
	const hex = "0123456789abcdef"
	out := make([]byte, 16)
	for i := range out {
		out[i] = hex[(x>>(uint(60-4*i)))&15]
	}
	return string(out)
}

func FuzzExec(f *testing.F) {
	debug.SetMemoryLimit(memLimit)
	// every seed first goes through a supervised worker process: a seed that kills the process would otherwise
	// take the whole fuzz run down before it starts (and is a violation in its own right)
	for _, s := range seeds {
		c := Case{Kind: "text", Text: []byte(s)}
		if _, err := check(c); err != nil {
			failFile(c, err.Error())
			continue
		}
		f.Add([]byte(s))
	}
	theWorker.stop()
	theWorker = nil
	f.Fuzz(func(t *testing.T, data []byte) {
		if len(data) > 4096 {
			t.Skip()
		}
		c := Case{Kind: "text", Text: data}
		if rep := execute(c); rep.Violation != "" {
			failFile(c, rep.Violation)
			t.Fatalf("VIOLATION %s", rep.Violation)
		}
	})
}
