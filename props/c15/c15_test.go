package c15

import (
	"fmt"
	"math"
	"reflect"
	"strings"
	"testing"
	"unicode"

	"github.com/ichiban/prolog"
	"pgregory.net/rapid"

	"verif/internal/h"
	"verif/internal/rt"
	"verif/internal/sut"
)

// Val is a Go value crossing the API, in a JSON-able form.
type Val struct {
	Kind  string  `json:"kind"` // string int int8 int16 int32 int64 float32 float64 slice array uint
	S     string  `json:"s,omitempty"`
	I     int64   `json:"i,omitempty"`
	F     float64 `json:"f,omitempty"`
	Elems []Val   `json:"elems,omitempty"`
	Elem  string  `json:"elem,omitempty"` // element kind of an empty slice
}

// goValue builds the Go value.
func (v Val) goValue() interface{} {
	switch v.Kind {
	case "string":
		return v.S
	case "int":
		return int(v.I)
	case "int8":
		return int8(v.I)
	case "int16":
		return int16(v.I)
	case "int32":
		return int32(v.I)
	case "int64":
		return v.I
	case "uint":
		return uint(v.I)
	case "float32":
		return float32(v.F)
	case "float64":
		return v.F
	case "slice", "array":
		// homogeneous slices of a concrete element type where possible, else []interface{}
		if len(v.Elems) == 0 {
			return []int{}
		}
		first := reflect.TypeOf(v.Elems[0].goValue())
		homog := true
		for _, e := range v.Elems {
			if reflect.TypeOf(e.goValue()) != first {
				homog = false
			}
		}
		if !homog {
			return nil // not constructible as a typed slice; callers skip
		}
		var out reflect.Value
		if v.Kind == "array" {
			out = reflect.New(reflect.ArrayOf(len(v.Elems), first)).Elem()
		} else {
			out = reflect.MakeSlice(reflect.SliceOf(first), len(v.Elems), len(v.Elems))
		}
		for i, e := range v.Elems {
			out.Index(i).Set(reflect.ValueOf(e.goValue()))
		}
		return out.Interface()
	}
	return nil
}

// term is the data term the value denotes under the double_quotes flag.
func (v Val) term(dq string) *rt.Term {
	switch v.Kind {
	case "string":
		rs := []rune(v.S)
		switch dq {
		case "atom":
			return rt.A(v.S)
		case "codes":
			es := make([]*rt.Term, len(rs))
			for i, r := range rs {
				es[i] = rt.I(int64(r))
			}
			return rt.List(es, nil)
		}
		es := make([]*rt.Term, len(rs))
		for i, r := range rs {
			es[i] = rt.A(string(r))
		}
		return rt.List(es, nil)
	case "int", "int8", "int16", "int32", "int64":
		return rt.I(v.I)
	case "float32":
		return rt.F(float64(float32(v.F)))
	case "float64":
		return rt.F(v.F)
	case "slice", "array":
		es := make([]*rt.Term, len(v.Elems))
		for i, e := range v.Elems {
			es[i] = e.term(dq)
		}
		return rt.List(es, nil)
	}
	return nil
}

// Case "ph": placeholders; "count": argument count mismatch; "scan": Scan into a destination.
type Case struct {
	Kind  string `json:"kind"`
	DQ    string `json:"dq"`
	Entry string `json:"entry,omitempty"` // query | querysolution | exec
	Vals  []Val  `json:"vals,omitempty"`
	// count
	Text string `json:"text,omitempty"`
	NArg int    `json:"narg,omitempty"`
	// scan
	Answers []*rt.Term `json:"answers,omitempty"`
	Dest    string     `json:"dest,omitempty"`
	Holder  string     `json:"holder,omitempty"` // map | struct
}

func (c Case) String() string {
	switch c.Kind {
	case "ph":
		var vs []string
		for _, v := range c.Vals {
			vs = append(vs, fmt.Sprintf("%s %#v", v.Kind, v.goValue()))
		}
		return fmt.Sprintf("placeholders via %s under double_quotes=%s: %s", c.Entry, c.DQ, strings.Join(vs, "; "))
	case "count":
		return fmt.Sprintf("%s(%q) with %d arguments", c.Entry, c.Text, c.NArg)
	}
	return fmt.Sprintf("Scan of %s into %s of %s", rt.Strings(c.Answers), c.Holder, c.Dest)
}

func interp(dq string) (*sut.I, error) {
	i := sut.New()
	if e := i.Exec(":- set_prolog_flag(double_quotes, "+dq+").\n", 100000); e != nil {
		return nil, fmt.Errorf("infrastructure: %s", e)
	}
	return i, nil
}

// dqLiteral renders s as a double-quoted literal if that is safely possible.
func dqLiteral(s string) (string, bool) {
	var b strings.Builder
	b.WriteByte('"')
	for _, r := range s {
		switch {
		case r == '"':
			b.WriteString("\\\"")
		case r == '\\':
			b.WriteString("\\\\")
		case r == '\n':
			b.WriteString("\\n")
		case r == '\t':
			b.WriteString("\\t")
		case r >= 0x20 && r < 0x7f:
			b.WriteRune(r)
		case r == unicode.ReplacementChar || r < 0x20 || r == 0x7f:
			return "", false // (known finding: U+FFFD is not representable in text at all)
		case unicode.IsLetter(r) && (unicode.IsLower(r) || unicode.IsUpper(r) || unicode.Is(unicode.Lo, r)):
			b.WriteRune(r)
		default:
			fmt.Fprintf(&b, "\\x%x\\", r)
		}
	}
	b.WriteByte('"')
	return b.String(), true
}

func literal(v Val) (string, bool) {
	switch v.Kind {
	case "string":
		return dqLiteral(v.S)
	case "int", "int8", "int16", "int32", "int64":
		if v.I < 0 {
			return fmt.Sprintf("(%d)", v.I), true
		}
		return fmt.Sprint(v.I), true
	case "float32":
		return signed(rt.FloatText(float64(float32(v.F)))), !math.IsInf(float64(float32(v.F)), 0)
	case "float64":
		return signed(rt.FloatText(v.F)), true
	case "slice", "array":
		var es []string
		for _, e := range v.Elems {
			l, ok := literal(e)
			if !ok {
				return "", false
			}
			es = append(es, l)
		}
		return "[" + strings.Join(es, ",") + "]", true
	}
	return "", false
}

func containsQM(v Val) bool {
	if v.Kind == "string" && v.S == "?" {
		return true
	}
	for _, e := range v.Elems {
		if containsQM(e) {
			return true
		}
	}
	return false
}

func signed(s string) string {
	if strings.HasPrefix(s, "-") {
		return "(" + s + ")"
	}
	return s
}

func checkPH(c Case) error {
	i, err := interp(c.DQ)
	if err != nil {
		return err
	}
	args := make([]interface{}, len(c.Vals))
	want := make([]*rt.Term, len(c.Vals))
	for k, v := range c.Vals {
		args[k] = v.goValue()
		if args[k] == nil {
			return nil // heterogeneous slice: not a typed Go value
		}
		want[k] = v.term(c.DQ)
	}
	ph := make([]string, len(args))
	for k := range ph {
		ph[k] = "?"
	}
	body := "w(" + strings.Join(ph, ", ") + ")"
	var got *rt.Term
	switch c.Entry {
	case "exec":
		if e := i.P.Exec("stored("+body+").\n", args...); e != nil {
			return fmt.Errorf("Exec with placeholders failed: %v", e)
		}
		res := i.Query("stored(X).", []string{"X"}, 5, 1_000_000)
		if res.Err != nil || len(res.Answers) != 1 {
			return fmt.Errorf("after Exec(\"stored(%s).\") stored/1 has %d clauses (err %v); the string content must not change the number of clauses", body, len(res.Answers), res.Err)
		}
		got = res.Answers[0][0]
	case "querysolution":
		sol := i.P.QuerySolution("X = "+body+".", args...)
		if sol.Err() != nil {
			return fmt.Errorf("QuerySolution with placeholders failed: %v", sol.Err())
		}
		m := map[string]sut.Box{}
		if e := sol.Scan(m); e != nil {
			return fmt.Errorf("infrastructure: %v", e)
		}
		got = m["X"].T
	default:
		res := i.Query("X = "+body+".", []string{"X"}, 5, 1_000_000, args...)
		if res.Err != nil || len(res.Answers) != 1 {
			return fmt.Errorf("Query with placeholders: %d answers, err %v; the value's content must not change the number of solutions", len(res.Answers), res.Err)
		}
		got = res.Answers[0][0]
	}
	wantT := rt.C("w", want...)
	if !rt.Equal(got, wantT) {
		return fmt.Errorf("placeholders are bound to %s, the values denote %s", got, wantT)
	}
	// placeholder == literal where a literal denotation exists
	var lits []string
	for _, v := range c.Vals {
		l, ok := literal(v)
		if !ok || (c.DQ == "atom" && containsQM(v)) {
			return nil // under double_quotes=atom the literal "?" is the placeholder atom itself: outside the property
		}
		lits = append(lits, l)
	}
	q := "X = " + body + ", Y = w(" + strings.Join(lits, ", ") + "), X == Y."
	res := i.Query(q, []string{}, 2, 1_000_000, args...)
	if res.Err != nil || len(res.Answers) != 1 {
		return fmt.Errorf("the placeholder values are not == to their literals: %s gives %d answers, err %v", q, len(res.Answers), res.Err)
	}
	return nil
}

func checkCount(c Case) error {
	i, err := interp(c.DQ)
	if err != nil {
		return err
	}
	args := make([]interface{}, c.NArg)
	for k := range args {
		args[k] = k + 1
	}
	nph := strings.Count(c.Text, "?")
	var e error
	switch c.Entry {
	case "exec":
		e = i.P.Exec(c.Text, args...)
	default:
		var sols *prolog.Solutions
		sols, e = i.P.Query(c.Text, args...)
		if e == nil {
			for sols.Next() {
			}
			e = sols.Err()
			_ = sols.Close()
		}
	}
	if nph != c.NArg && e == nil {
		return fmt.Errorf("%s(%q) with %d arguments for %d placeholders returned no error", c.Entry, c.Text, c.NArg, nph)
	}
	// (that a matching count succeeds is not part of the property: texts with several terms are rejected
	// for other reasons)
	return nil
}

var destTypes = map[string]reflect.Type{
	"int": reflect.TypeOf(int(0)), "int8": reflect.TypeOf(int8(0)), "int16": reflect.TypeOf(int16(0)), "int32": reflect.TypeOf(int32(0)), "int64": reflect.TypeOf(int64(0)),
	"float32": reflect.TypeOf(float32(0)), "float64": reflect.TypeOf(float64(0)), "string": reflect.TypeOf(""),
	"[]int": reflect.TypeOf([]int{}), "[]int8": reflect.TypeOf([]int8{}), "[]int16": reflect.TypeOf([]int16{}), "[]int64": reflect.TypeOf([]int64{}), "[]string": reflect.TypeOf([]string{}), "[]float64": reflect.TypeOf([]float64{}), "[]float32": reflect.TypeOf([]float32{}),
	"[][]int": reflect.TypeOf([][]int{}), "[][]int8": reflect.TypeOf([][]int8{}), "[][]string": reflect.TypeOf([][]string{}),
	"interface": reflect.TypeOf((*interface{})(nil)).Elem(), "[]interface": reflect.TypeOf([]interface{}{}),
}

// holds says whether the Go value v faithfully holds the answer term a; "" = yes / nothing asserted.
func holds(v reflect.Value, a *rt.Term) string {
	switch v.Kind() {
	case reflect.Int, reflect.Int8, reflect.Int16, reflect.Int32, reflect.Int64:
		if a.K != rt.Int {
			return fmt.Sprintf("%s accepted for an integer destination (stored %d)", a, v.Int())
		}
		if v.Int() != a.I {
			return fmt.Sprintf("stored %d, the answer is %d", v.Int(), a.I)
		}
	case reflect.Float64, reflect.Float32:
		switch a.K {
		case rt.Float:
			want := a.F
			if v.Kind() == reflect.Float32 {
				want = float64(float32(a.F))
				if math.IsInf(want, 0) && !math.IsInf(a.F, 0) {
					return fmt.Sprintf("stored %v for the finite answer %v", v.Float(), a.F)
				}
			}
			if math.Float64bits(v.Float()) != math.Float64bits(want) && !(v.Float() == 0 && want == 0) {
				return fmt.Sprintf("stored %v, the answer is %v", v.Float(), a.F)
			}
		case rt.Int:
			if v.Float() != float64(a.I) || int64(v.Float()) != a.I {
				return fmt.Sprintf("stored %v for the integer answer %d", v.Float(), a.I)
			}
		default:
			return fmt.Sprintf("%s accepted for a float destination (stored %v)", a, v.Float())
		}
	case reflect.String:
		if a.K == rt.Atom && v.String() != a.S {
			return fmt.Sprintf("stored %q, the answer is the atom %q", v.String(), a.S)
		}
	case reflect.Slice:
		es, tail := a.Unlist()
		if !tail.IsAtom("[]") {
			return fmt.Sprintf("%s (not a proper list) accepted for a slice destination", a)
		}
		if v.Len() != len(es) {
			return fmt.Sprintf("stored a slice of length %d, the answer list has %d elements", v.Len(), len(es))
		}
		for i := range es {
			if m := holds(v.Index(i), es[i]); m != "" {
				return fmt.Sprintf("element %d: %s", i, m)
			}
		}
	case reflect.Interface:
		if v.IsNil() {
			if a.K != rt.Var {
				return fmt.Sprintf("stored nil for the answer %s", a)
			}
			return ""
		}
		e := v.Elem()
		switch a.K {
		case rt.Int, rt.Float:
			return holds(e, a)
		case rt.Atom:
			if a.S == "[]" {
				if e.Kind() != reflect.Slice || e.Len() != 0 {
					return fmt.Sprintf("stored %v for []", e.Interface())
				}
				return ""
			}
			if e.Kind() != reflect.String || e.String() != a.S {
				return fmt.Sprintf("stored %v for the atom %q", e.Interface(), a.S)
			}
		case rt.Comp:
			if !a.Is(".", 2) {
				return fmt.Sprintf("the compound %s was accepted for interface{} (stored %v)", a, e.Interface())
			}
			return holds(e, a)
		case rt.Var:
			return fmt.Sprintf("stored %v for an unbound answer", e.Interface())
		}
	}
	return ""
}

func checkScan(c Case) error {
	i, err := interp(c.DQ)
	if err != nil {
		return err
	}
	typ, ok := destTypes[c.Dest]
	if !ok {
		return fmt.Errorf("infrastructure: dest %q", c.Dest)
	}
	names := []string{"X", "Y", "Z"}[:len(c.Answers)]
	var goals []string
	for k, a := range c.Answers {
		goals = append(goals, names[k]+" = "+a.Text(map[int64]string{0: "_U"}))
	}
	sol := i.P.QuerySolution(strings.Join(goals, ", ") + ".")
	if sol.Err() != nil {
		return fmt.Errorf("infrastructure: query %v failed: %v", goals, sol.Err())
	}
	switch c.Holder {
	case "struct":
		var fields []reflect.StructField
		for k, n := range names {
			f := reflect.StructField{Name: n, Type: typ}
			if k == 1 { // a tagged field under another Go name
				f = reflect.StructField{Name: "Second", Type: typ, Tag: `prolog:"Y"`}
			}
			fields = append(fields, f)
		}
		dst := reflect.New(reflect.StructOf(fields))
		if e := sol.Scan(dst.Interface()); e != nil {
			return nil // an error is always an acceptable outcome
		}
		for k := range names {
			if m := holds(dst.Elem().Field(k), c.Answers[k]); m != "" {
				return fmt.Errorf("Scan returned nil but field %s: %s", names[k], m)
			}
		}
	default:
		dst := reflect.MakeMap(reflect.MapOf(reflect.TypeOf(""), typ))
		if e := sol.Scan(dst.Interface()); e != nil {
			return nil
		}
		for k, n := range names {
			v := dst.MapIndex(reflect.ValueOf(n))
			if !v.IsValid() {
				return fmt.Errorf("Scan returned nil but the map has no entry for %s", n)
			}
			if m := holds(v, c.Answers[k]); m != "" {
				return fmt.Errorf("Scan returned nil but %s: %s", n, m)
			}
		}
	}
	return nil
}

func check(c Case) error {
	switch c.Kind {
	case "ph":
		return checkPH(c)
	case "count":
		return checkCount(c)
	case "scan":
		return checkScan(c)
	}
	return fmt.Errorf("infrastructure: kind %q", c.Kind)
}

func init() { h.Reg("c15", check) }

// ---- generators -----------------------------------------------------------------------------------------

var hostile = []string{"'", "\"", "\\", ".", " :- ", "). halt. %", "\n", "\x00", "?", "/*", "*/", "0'", "a", "é", "日", "😀", " ", "\ufffd", ",", "|", "[]", "{}", "X", "_", "%", "\t", "\r", "\u00a0", "\u2028", "'\\''", "\\x41\\", ". :- halt.", "\"\"", "`",
	// boundary scalars of the encoding and of the atom representation
	"\U0010FFFF", "\U0010FFFE", "\uD7FF", "\uE000", "\uFFFF", "\U00010000", "\x7f", "\u0080", "\u07FF", "\u0800"}

func u(t *rapid.T, n int, l string) int { return int(rapid.Uint64().Draw(t, l) % uint64(n)) }

func genString() *rapid.Generator[string] {
	return rapid.Custom(func(t *rapid.T) string {
		if u(t, 10, "plain") < 3 {
			return rapid.String().Draw(t, "s")
		}
		var b strings.Builder
		for i, n := 0, u(t, 7, "parts"); i < n; i++ {
			if u(t, 2, "host") == 0 {
				b.WriteString(hostile[u(t, len(hostile), "h")])
			} else {
				b.WriteRune(rapid.Rune().Draw(t, "r"))
			}
		}
		return b.String()
	})
}

var intKinds = []string{"int", "int8", "int16", "int32", "int64"}
var boundaries = []int64{0, 1, -1, 127, 128, -128, -129, 255, 256, 32767, 32768, -32768, -32769, 65535, 65536, math.MaxInt32, math.MaxInt32 + 1, math.MinInt32, math.MinInt32 - 1, 1 << 53, 1<<53 + 1, math.MaxInt64, math.MinInt64, math.MaxInt64 - 1}

func genInt(t *rapid.T, kind string) int64 {
	var v int64
	switch u(t, 3, "ik") {
	case 0:
		v = boundaries[u(t, len(boundaries), "b")]
	case 1:
		v = rapid.Int64().Draw(t, "i64")
	default:
		v = int64(u(t, 300, "small")) - 150
	}
	switch kind {
	case "int8":
		return int64(int8(v))
	case "int16":
		return int64(int16(v))
	case "int32":
		return int64(int32(v))
	}
	return v
}

var floatPool = []float64{0, 1.5, -2.25, 1e300, -1e300, math.MaxFloat64, -math.MaxFloat64, 5e-324, 3.4028234663852886e38, 3.4028235677973366e38, 3.5e38, 1e-50, 0.1, 16777217, 1e39, -1e39, 123456.789}

func genFloat(t *rapid.T) float64 {
	if u(t, 2, "fp") == 0 {
		return floatPool[u(t, len(floatPool), "f")]
	}
	for {
		f := math.Float64frombits(rapid.Uint64().Draw(t, "bits"))
		if !math.IsInf(f, 0) && !math.IsNaN(f) {
			return f
		}
	}
}

func genVal(depth int) *rapid.Generator[Val] {
	return rapid.Custom(func(t *rapid.T) Val {
		k := u(t, 10, "valkind")
		switch {
		case k < 4:
			return Val{Kind: "string", S: genString().Draw(t, "str")}
		case k < 6:
			kind := intKinds[u(t, len(intKinds), "ikind")]
			return Val{Kind: kind, I: genInt(t, kind)}
		case k < 8 || depth <= 0:
			if u(t, 4, "f32") == 0 {
				f := genFloat(t)
				if math.IsInf(float64(float32(f)), 0) {
					f = 1.5
				}
				return Val{Kind: "float32", F: f}
			}
			return Val{Kind: "float64", F: genFloat(t)}
		default:
			n := u(t, 4, "len")
			v := Val{Kind: []string{"slice", "slice", "array"}[u(t, 3, "sk")]}
			first := genVal(depth-1).Draw(t, "e0")
			for i := 0; i < n; i++ {
				e := genVal(depth-1).Draw(t, "e")
				if e.Kind != first.Kind || len(e.Elems) != len(first.Elems) && first.Kind == "array" {
					e = first
				}
				v.Elems = append(v.Elems, e)
			}
			return v
		}
	})
}

func genAnswer(t *rapid.T, depth int) *rt.Term {
	k := u(t, 12, "ans")
	switch {
	case k < 4:
		return rt.I(genInt(t, "int64"))
	case k < 6:
		return rt.F(genFloat(t))
	case k < 7:
		return rt.A([]string{"a", "abc", "[]", "hello world", "é"}[u(t, 5, "atom")])
	case k < 8:
		return rt.V(0)
	case k < 9:
		return rt.C("f", rt.A("a"))
	case k < 10 || depth <= 0:
		// char list / code list
		s := []string{"ab", "", "xyz"}[u(t, 3, "s")]
		var es []*rt.Term
		for _, r := range s {
			if u(t, 2, "codes") == 0 {
				es = append(es, rt.I(int64(r)))
			} else {
				es = append(es, rt.A(string(r)))
			}
		}
		return rt.List(es, nil)
	default:
		n := u(t, 4, "n")
		es := make([]*rt.Term, n)
		first := genAnswer(t, depth-1)
		for i := range es {
			if u(t, 5, "mixed") == 0 {
				es[i] = genAnswer(t, depth-1) // mixed lists
			} else if first.K == rt.Int {
				es[i] = rt.I(genInt(t, "int64"))
			} else {
				es[i] = first
			}
		}
		if u(t, 10, "improper") == 0 && n > 0 {
			return rt.List(es, rt.A("b"))
		}
		return rt.List(es, nil)
	}
}

var destNames = []string{"int", "int8", "int16", "int32", "int64", "float32", "float64", "string", "[]int", "[]int8", "[]int16", "[]int64", "[]string", "[]float64", "[]float32", "[][]int", "[][]int8", "[][]string", "interface", "[]interface"}

var countTexts = []string{
	"X = ? .", "X = f(?, ?).", "X = 1.", "X = ? . foo.", "X = ?.\n true.", "X = ? . % comment", "X = f(?). \n", "X = f(?).   ", "X = '?'.",
	"foo(?).", "foo(?). bar(?).", "foo(?, ?). bar.", "foo. bar(?).", "foo(?).\n:- true.\n", "foo.",
}

func genCase() *rapid.Generator[Case] {
	return rapid.Custom(func(t *rapid.T) Case {
		dq := []string{"chars", "codes", "atom"}[u(t, 3, "dq")]
		switch k := u(t, 10, "kind"); {
		case k < 5:
			c := Case{Kind: "ph", DQ: dq, Entry: []string{"query", "querysolution", "exec"}[u(t, 3, "entry")]}
			for i, n := 0, 1+u(t, 3, "nvals"); i < n; i++ {
				c.Vals = append(c.Vals, genVal(2).Draw(t, "val"))
			}
			return c
		case k < 6:
			txt := countTexts[u(t, len(countTexts), "text")]
			c := Case{Kind: "count", DQ: dq, Text: txt, Entry: "query", NArg: u(t, 4, "narg")}
			if strings.HasPrefix(txt, "foo") {
				c.Entry = "exec"
			}
			return c
		default:
			c := Case{Kind: "scan", DQ: "chars", Dest: destNames[u(t, len(destNames), "dest")], Holder: []string{"map", "struct"}[u(t, 2, "holder")]}
			n := 1 + u(t, 3, "nans")
			first := genAnswer(t, 2)
			for i := 0; i < n; i++ {
				a := first
				if i > 0 {
					a = genAnswer(t, 2)
					// usually the same shape as the first answer, so that all of them convert
					if u(t, 4, "sameshape") != 0 {
						a = reshape(t, first)
					}
				}
				c.Answers = append(c.Answers, a)
			}
			return c
		}
	})
}

// reshape makes another answer of the same shape as a (other numbers, other lengths).
func reshape(t *rapid.T, a *rt.Term) *rt.Term {
	switch a.K {
	case rt.Int:
		return rt.I(genInt(t, "int64"))
	case rt.Float:
		return rt.F(genFloat(t))
	case rt.Comp:
		if a.Is(".", 2) {
			es, tail := a.Unlist()
			n := u(t, 4, "rlen")
			out := make([]*rt.Term, n)
			for i := range out {
				out[i] = reshape(t, es[i%len(es)])
			}
			return rt.List(out, tail)
		}
	}
	return a
}

func nontrivial(c Case) bool {
	switch c.Kind {
	case "ph":
		for _, v := range c.Vals {
			if v.Kind == "string" && strings.ContainsAny(v.S, "'\"\\.:-%\n\x00?/*,|[]{}()") {
				return true
			}
			if v.Kind == "slice" || v.Kind == "array" {
				return true
			}
		}
		return false
	case "count":
		return strings.Count(c.Text, "?") != c.NArg
	}
	// scan: value outside or at the edge of the destination's range, or a nested destination
	if strings.HasPrefix(c.Dest, "[") || len(c.Answers) > 1 {
		return true
	}
	a := c.Answers[0]
	if a.K == rt.Int {
		for _, b := range boundaries {
			if a.I == b {
				return true
			}
		}
		return a.I > math.MaxInt32 || a.I < math.MinInt32
	}
	return a.K == rt.Float && c.Dest == "float32"
}

func TestProp(t *testing.T) {
	r := h.Start(t, "C15")
	defer r.Finish(t)
	r.Rule("rapid-generated cases of three kinds. (ph) 1-3 Go values for '?' placeholders - strings (rapid.String over all Unicode scalars and a hostile dictionary: quotes, backslashes, '.', ':-', '). halt. %', newline, NUL, '?', comment openers, 0', U+FFFD, NBSP), integers of every signed width incl. boundaries, float64/float32 incl. extremes and raw bit patterns, nested slices and arrays - under each double_quotes value, through Query, QuerySolution and Exec (stored(w(?,..)). then stored(X)): the bound term, read structurally, must be exactly the data term the values denote under the flag; the number of solutions/clauses is 1 whatever the content; where a literal denotation exists (the harness escapes the string itself) placeholder == literal. (count) fixed texts with 0-2 placeholders, also with further text after the first term, x 0-3 arguments: any mismatch must be an error. (scan) 1-3 answer values (integers across all ranges and every destination boundary +-1, floats, atoms, unbound, compounds, char/code lists, nested, mixed and improper lists) x 20 destination types (int, int8/16/32/64, float32/64, string, slices thereof, nested slices, interface{}, []interface{}) held in a map[string]T or in a struct (one field under a prolog tag): either Scan returns an error or every destination holds exactly the answer's value (float32: rounding to nearest accepted, finite -> Inf not). Non-trivial: (ph) a string with a lexically meaningful character or a nested value; (count) a mismatch; (scan) a boundary/out-of-range integer, a float32 destination, a nested destination or several answers. Distinct by case.",
		"structural observation through a Scanner (no writer, no parser on the value path)", "unsigned and other unsupported Go kinds must yield an error and are covered by the count/ph error paths only")
	r.Regress(t)
	if r.Failed() {
		return
	}
	r.Rapid(t, "values", r.Pick(60000, 3000000), func(t *rapid.T) {
		c := genCase().Draw(t, "case")
		r.Label("sampled_" + c.Kind)
		r.Eval(1)
		if nontrivial(c) {
			r.NonTrivial(h.Hash(c), c.Kind+":"+c.Dest+c.Entry, func() any { return c.String() })
		}
		if err := check(c); err != nil {
			r.Fail(t, "c15", c, err)
		}
	})
}

func TestReplay(t *testing.T) { h.Replay(t, "C15") }
func TestKnown(t *testing.T)  { h.KnownRepro(t, "C15") }
