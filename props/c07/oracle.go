package c07

import (
	"fmt"
	"math"
	"math/big"

	"verif/internal/rt"
)

// val is the oracle's value: exactly one of I (exact integer) or F (IEEE double).
type val struct {
	I *big.Int
	F float64
}

func (v val) isInt() bool { return v.I != nil }
func (v val) f() float64 {
	if v.I != nil {
		f, _ := new(big.Float).SetInt(v.I).Float64()
		return f
	}
	return v.F
}
func (v val) String() string {
	if v.I != nil {
		return v.I.String()
	}
	return rt.FloatText(v.F)
}

// outcome of the reference evaluation: acceptable values (usually one) and acceptable errors.
// skip = nothing is asserted for this expression (outside the property).
type outcome struct {
	vals []val
	errs []string // "int_overflow", "zero_divisor", "float_overflow", "undefined", "underflow", "type_error", "instantiation_error"
	skip string
}

func okI(b *big.Int) outcome {
	if !b.IsInt64() {
		return outcome{errs: []string{"int_overflow"}}
	}
	return outcome{vals: []val{{I: b}}}
}

// okF classifies an IEEE result. under = a non-zero exact result may have rounded to zero.
func okF(r float64, under bool) outcome {
	switch {
	case math.IsInf(r, 0):
		return outcome{errs: []string{"float_overflow"}}
	case math.IsNaN(r):
		return outcome{errs: []string{"undefined"}}
	case r == 0 && under:
		return outcome{vals: []val{{F: r}}, errs: []string{"underflow"}}
	}
	return outcome{vals: []val{{F: r}}}
}

func errO(e ...string) outcome { return outcome{errs: e} }

var two63 = new(big.Int).Lsh(big.NewInt(1), 63)

func floorDiv(x, y *big.Int) *big.Int {
	q, m := new(big.Int).QuoRem(x, y, new(big.Int))
	if m.Sign() != 0 && (m.Sign() < 0) != (y.Sign() < 0) {
		q.Sub(q, big.NewInt(1))
	}
	return q
}

func exactFloatToInt(r float64) outcome {
	if math.IsInf(r, 0) || math.IsNaN(r) {
		return errO("int_overflow", "undefined")
	}
	b, _ := new(big.Float).SetFloat64(r).Int(nil)
	return okI(b)
}

// unary evaluates a unary functor on a known operand value.
func unary(op string, x val) outcome {
	switch op {
	case "-":
		if x.isInt() {
			return okI(new(big.Int).Neg(x.I))
		}
		return okF(-x.F, false)
	case "+":
		if x.isInt() {
			return okI(x.I)
		}
		return okF(x.F, false)
	case "abs":
		if x.isInt() {
			return okI(new(big.Int).Abs(x.I))
		}
		return okF(math.Abs(x.F), false)
	case "sign":
		if x.isInt() {
			return okI(big.NewInt(int64(x.I.Sign())))
		}
		switch {
		case x.F > 0:
			return okF(1, false)
		case x.F < 0:
			return okF(-1, false)
		}
		return okF(0, false)
	case "\\":
		if x.isInt() {
			return okI(new(big.Int).Not(x.I))
		}
		return errO("type_error")
	case "float":
		return okF(x.f(), false)
	case "floor", "ceiling", "round", "truncate":
		if x.isInt() {
			return outcome{skip: "float-to-integer function applied to an integer"}
		}
		var r float64
		switch op {
		case "floor":
			r = math.Floor(x.F)
		case "ceiling":
			r = math.Ceil(x.F)
		case "round":
			r = math.Round(x.F)
		default:
			r = math.Trunc(x.F)
		}
		return exactFloatToInt(r)
	case "float_integer_part":
		if x.isInt() {
			return errO("type_error")
		}
		return okF(math.Trunc(x.F), false)
	case "float_fractional_part":
		if x.isInt() {
			return errO("type_error")
		}
		_, fr := math.Modf(x.F)
		return okF(fr, false)
	}
	return outcome{skip: "no oracle for " + op + "/1"}
}

func intOnly(x, y val) (outcome, bool) {
	if !x.isInt() || !y.isInt() {
		return errO("type_error"), false
	}
	return outcome{}, true
}

// binary evaluates a binary functor on known operand values.
func binary(op string, x, y val) outcome {
	bothInt := x.isInt() && y.isInt()
	switch op {
	case "+", "-", "*":
		if bothInt {
			switch op {
			case "+":
				return okI(new(big.Int).Add(x.I, y.I))
			case "-":
				return okI(new(big.Int).Sub(x.I, y.I))
			}
			return okI(new(big.Int).Mul(x.I, y.I))
		}
		a, b := x.f(), y.f()
		switch op {
		case "+":
			return okF(a+b, false)
		case "-":
			return okF(a-b, false)
		}
		return okF(a*b, a != 0 && b != 0)
	case "/":
		a, b := x.f(), y.f()
		if b == 0 {
			if a == 0 {
				return errO("zero_divisor", "undefined")
			}
			return errO("zero_divisor")
		}
		return okF(a/b, a != 0)
	case "//", "rem", "mod", "div":
		if o, ok := intOnly(x, y); !ok {
			return o
		}
		if y.I.Sign() == 0 {
			return errO("zero_divisor")
		}
		switch op {
		case "//":
			return okI(new(big.Int).Quo(x.I, y.I))
		case "rem":
			return okI(new(big.Int).Rem(x.I, y.I))
		case "div":
			return okI(floorDiv(x.I, y.I))
		}
		q := floorDiv(x.I, y.I)
		return okI(new(big.Int).Sub(x.I, new(big.Int).Mul(q, y.I)))
	case "min", "max":
		if bothInt {
			c := x.I.Cmp(y.I)
			if (op == "min") == (c <= 0) {
				return okI(x.I)
			}
			return okI(y.I)
		}
		a, b := x.f(), y.f()
		switch {
		case a == b: // equal after conversion: either operand is a correct answer
			return outcome{vals: []val{x, y}}
		case (a < b) == (op == "min"):
			return outcome{vals: []val{x}}
		}
		return outcome{vals: []val{y}}
	case "/\\", "\\/", "xor":
		if o, ok := intOnly(x, y); !ok {
			return o
		}
		switch op {
		case "/\\":
			return okI(new(big.Int).And(x.I, y.I))
		case "\\/":
			return okI(new(big.Int).Or(x.I, y.I))
		}
		return okI(new(big.Int).Xor(x.I, y.I))
	case "<<", ">>":
		if o, ok := intOnly(x, y); !ok {
			return o
		}
		if !y.I.IsInt64() || y.I.Int64() < 0 || y.I.Int64() > 63 {
			return outcome{skip: "shift count outside 0..63"}
		}
		s := uint(y.I.Int64())
		if op == "<<" {
			r := new(big.Int).Lsh(x.I, s)
			if !r.IsInt64() {
				return outcome{skip: "overflowing shift"}
			}
			return okI(r)
		}
		if x.I.Sign() < 0 && new(big.Int).And(x.I, new(big.Int).Sub(new(big.Int).Lsh(big.NewInt(1), s), big.NewInt(1))).Sign() != 0 {
			return outcome{skip: ">> of a negative non-multiple (implementation defined)"}
		}
		return okI(new(big.Int).Rsh(x.I, s))
	case "^":
		if !bothInt {
			return outcome{skip: "^ on floats (transcendental)"}
		}
		if y.I.Sign() < 0 {
			switch {
			case x.I.Sign() == 0:
				return errO("undefined", "zero_divisor")
			case x.I.CmpAbs(big.NewInt(1)) == 0:
				if x.I.Sign() > 0 || y.I.Bit(0) == 0 {
					return okI(big.NewInt(1))
				}
				return okI(big.NewInt(-1))
			}
			return errO("type_error")
		}
		if x.I.CmpAbs(big.NewInt(1)) <= 0 {
			switch {
			case y.I.Sign() == 0:
				return okI(big.NewInt(1))
			case x.I.Sign() == 0:
				return okI(big.NewInt(0))
			case x.I.Sign() > 0 || y.I.Bit(0) == 0:
				return okI(big.NewInt(1))
			}
			return okI(big.NewInt(-1))
		}
		if y.I.BitLen() > 7 {
			return errO("int_overflow")
		}
		return okI(new(big.Int).Exp(x.I, y.I, nil))
	}
	return outcome{skip: "no oracle for " + op + "/2"}
}

// evalRef evaluates an expression term. Sub-expression errors propagate; when both operands
// of a functor raise, either error is acceptable.
func evalRef(t *rt.Term) outcome {
	switch t.K {
	case rt.Int:
		return outcome{vals: []val{{I: big.NewInt(t.I)}}}
	case rt.Float:
		return outcome{vals: []val{{F: t.F}}}
	case rt.Comp:
		switch len(t.A) {
		case 1:
			x := evalRef(t.A[0])
			if x.skip != "" {
				return x
			}
			return combine(x, nil, func(a, _ val) outcome { return unary(t.S, a) })
		case 2:
			x, y := evalRef(t.A[0]), evalRef(t.A[1])
			if x.skip != "" {
				return x
			}
			if y.skip != "" {
				return y
			}
			return combine(x, &y, func(a, b val) outcome { return binary(t.S, a, b) })
		}
	}
	return outcome{skip: fmt.Sprintf("not an expression: %s", t)}
}

func combine(x outcome, y *outcome, f func(a, b val) outcome) outcome {
	var out outcome
	add := func(o outcome) {
		if o.skip != "" && out.skip == "" {
			out.skip = o.skip
		}
		out.vals = append(out.vals, o.vals...)
		for _, e := range o.errs {
			dup := false
			for _, x := range out.errs {
				dup = dup || x == e
			}
			if !dup {
				out.errs = append(out.errs, e)
			}
		}
	}
	out.errs = append(out.errs, x.errs...)
	if y == nil {
		for _, a := range x.vals {
			add(f(a, val{}))
		}
		return out
	}
	for _, e := range y.errs {
		dup := false
		for _, z := range out.errs {
			dup = dup || z == e
		}
		if !dup {
			out.errs = append(out.errs, e)
		}
	}
	// an operand with several acceptable values (min/max ties, underflow-or-zero) makes the tree ambiguous:
	// every combination is acceptable
	for _, a := range x.vals {
		for _, b := range y.vals {
			add(f(a, b))
		}
	}
	return out
}

// cmpRef: the truth value of l op r, or an error set.
func cmpRef(op string, l, r *rt.Term) (want []bool, errs []string, skip string) {
	x, y := evalRef(l), evalRef(r)
	if x.skip != "" {
		return nil, nil, x.skip
	}
	if y.skip != "" {
		return nil, nil, y.skip
	}
	errs = append(append(errs, x.errs...), y.errs...)
	for _, a := range x.vals {
		for _, b := range y.vals {
			var c int
			var unordered bool
			if a.isInt() && b.isInt() {
				c = a.I.Cmp(b.I)
			} else {
				fa, fb := a.f(), b.f()
				switch {
				case fa < fb:
					c = -1
				case fa > fb:
					c = 1
				case fa == fb:
					c = 0
				default:
					unordered = true
				}
			}
			if unordered {
				return nil, nil, "NaN operand"
			}
			var w bool
			switch op {
			case "=:=":
				w = c == 0
			case "=\\=":
				w = c != 0
			case "<":
				w = c < 0
			case "=<":
				w = c <= 0
			case ">":
				w = c > 0
			case ">=":
				w = c >= 0
			}
			want = append(want, w)
		}
	}
	return want, errs, ""
}
