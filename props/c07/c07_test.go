package c07

import (
	"fmt"
	"math"
	"math/big"
	"strings"
	"testing"

	"pgregory.net/rapid"

	"verif/internal/h"
	"verif/internal/rt"
	"verif/internal/sut"
)

// Case: "is" evaluates Expr; "cmp" tests L Op R; "lit" evaluates an integer written out in the notation Op
// (the value is Expr) as an operand in the text itself.
type Case struct {
	Kind string   `json:"kind"`
	Op   string   `json:"op,omitempty"`
	Expr *rt.Term `json:"expr,omitempty"`
	L    *rt.Term `json:"l,omitempty"`
	R    *rt.Term `json:"r,omitempty"`
}

func (c Case) String() string {
	if c.Kind == "lit" {
		return fmt.Sprintf("X is %s + 0, %s =:= %d", literal(c.Op, c.Expr.I), literal(c.Op, c.Expr.I), c.Expr.I)
	}
	if c.Kind == "cmp" {
		return fmt.Sprintf("%s %s %s", c.L, c.Op, c.R)
	}
	return "X is " + c.Expr.String()
}

var interp *sut.I
var interpUses int

func ip() *sut.I {
	if interp == nil || interpUses > 2000 {
		interp, interpUses = sut.New(), 0
	}
	interpUses++
	return interp
}

// exprText renders the expression with every number leaf as a '?' placeholder (so neither the
// lexer nor the writer is on the path); args collects the Go values in order.
func exprText(t *rt.Term, b *strings.Builder, args *[]any) {
	switch t.K {
	case rt.Int:
		b.WriteString(" ? ")
		*args = append(*args, t.I)
	case rt.Float:
		b.WriteString(" ? ")
		*args = append(*args, t.F)
	default:
		b.WriteString(rt.QuoteAtom(t.S))
		b.WriteString("(")
		for i, a := range t.A {
			if i > 0 {
				b.WriteString(",")
			}
			exprText(a, b, args)
		}
		b.WriteString(")")
	}
}

func errName(e *sut.ErrInfo) string {
	f := sut.Formal(e)
	if f == nil {
		return e.String()
	}
	if f.Is("evaluation_error", 1) && f.A[0].K == rt.Atom {
		return f.A[0].S
	}
	if f.K == rt.Comp {
		return f.S
	}
	return f.String()
}

// floatAddKnown is the input classifier of known finding c07-float-add-exact-overflow (item 26):
// a float + or - (mixed operands included) whose exact sum exceeds the largest finite double
// in magnitude while the IEEE-754 (rounded) result is finite.
func floatAddKnown(t *rt.Term) bool {
	if t.K != rt.Comp {
		return false
	}
	for _, a := range t.A {
		if floatAddKnown(a) {
			return true
		}
	}
	if len(t.A) != 2 || (t.S != "+" && t.S != "-") {
		return false
	}
	x, y := evalRef(t.A[0]), evalRef(t.A[1])
	for _, a := range x.vals {
		for _, b := range y.vals {
			if a.isInt() && b.isInt() {
				continue
			}
			fa, fb := a.f(), b.f()
			if t.S == "-" {
				fb = -fb
			}
			if math.IsInf(fa+fb, 0) || math.IsNaN(fa+fb) {
				continue
			}
			exact := new(big.Float).SetPrec(2200).SetFloat64(fa)
			exact.Add(exact, new(big.Float).SetPrec(2200).SetFloat64(fb))
			if exact.Abs(exact).Cmp(new(big.Float).SetFloat64(math.MaxFloat64)) > 0 {
				return true
			}
		}
	}
	return false
}

const knownAdd = "c07-float-add-exact-overflow"

// powUnitKnown is the input classifier of known finding c07-pow-unit-base-minint: B ^ E with B = 1 or -1
// and E = -2^63 raises int_overflow (the exponent is negated first) although the exact result is 1.
func powUnitKnown(t *rt.Term) bool {
	if t.K != rt.Comp {
		return false
	}
	for _, a := range t.A {
		if powUnitKnown(a) {
			return true
		}
	}
	if len(t.A) != 2 || t.S != "^" {
		return false
	}
	x, y := evalRef(t.A[0]), evalRef(t.A[1])
	for _, a := range x.vals {
		for _, b := range y.vals {
			if a.isInt() && b.isInt() && a.I.CmpAbs(big.NewInt(1)) == 0 && b.I.IsInt64() && b.I.Int64() == math.MinInt64 {
				return true
			}
		}
	}
	return false
}

const knownPow = "c07-pow-unit-base-minint"

// knownOf returns the slug of the listed known finding whose input classifier matches the case.
func knownOf(r *h.R, c Case) string {
	var ts []*rt.Term
	if c.Kind == "cmp" {
		ts = []*rt.Term{c.L, c.R}
	} else {
		ts = []*rt.Term{c.Expr}
	}
	for _, t := range ts {
		if r.KnownListed(knownAdd) && floatAddKnown(t) {
			return knownAdd
		}
		if r.KnownListed(knownPow) && powUnitKnown(t) {
			return knownPow
		}
	}
	return ""
}

// check runs one case against the real interpreter and the oracle.
// literal writes the non-negative integer v in one of the notations of ISO 6.4.4 (decimal, decimal with
// leading zeros, binary, octal, hexadecimal) or negated by a directly preceding minus sign.
func literal(notation string, v int64) string {
	neg := ""
	if v < 0 {
		neg = "-"
	}
	m := new(big.Int).Abs(big.NewInt(v))
	switch notation {
	case "zeros1":
		return neg + "0" + m.Text(10)
	case "zeros3":
		return neg + "000" + m.Text(10)
	case "bin":
		return neg + "0b" + m.Text(2)
	case "oct":
		return neg + "0o" + m.Text(8)
	case "hex":
		return neg + "0x" + m.Text(16)
	case "HEX":
		return neg + "0x" + strings.ToUpper(m.Text(16))
	}
	return neg + m.Text(10)
}

var notations = []string{"dec", "zeros1", "zeros3", "bin", "oct", "hex", "HEX"}

func check(c Case) error {
	p := ip()
	switch c.Kind {
	case "lit":
		txt := literal(c.Op, c.Expr.I)
		res := p.Query(fmt.Sprintf("X is %s + 0, (%s =:= ? -> E = eq ; E = ne), Y is 0 + %s.", txt, txt, txt), []string{"X", "E", "Y"}, 2, 200000, c.Expr.I)
		if res.Err != nil || len(res.Answers) != 1 {
			return fmt.Errorf("%s: %v (%d answers)", c, res.Err, len(res.Answers))
		}
		a := res.Answers[0]
		if a[0].K != rt.Int || a[0].I != c.Expr.I || a[2].K != rt.Int || a[2].I != c.Expr.I || !a[1].IsAtom("eq") {
			return fmt.Errorf("the operand written %s evaluates to %s / %s and compares %s with %d", txt, a[0], a[2], a[1], c.Expr.I)
		}
		return nil
	case "is":
		want := evalRef(c.Expr)
		if want.skip != "" {
			return nil
		}
		var b strings.Builder
		var args []any
		b.WriteString("X is ")
		exprText(c.Expr, &b, &args)
		b.WriteString(".")
		res := p.Query(b.String(), []string{"X"}, 2, 200000, args...)
		if res.Err != nil {
			if res.Err.Kind != "ball" {
				return fmt.Errorf("%s: not a Prolog error: %s", c, res.Err)
			}
			got := errName(res.Err)
			for _, e := range want.errs {
				if e == got {
					return nil
				}
			}
			return fmt.Errorf("%s: raised %s, expected %s", c, got, describe(want))
		}
		if len(res.Answers) != 1 {
			return fmt.Errorf("%s: %d answers, expected %s", c, len(res.Answers), describe(want))
		}
		got := res.Answers[0][0]
		for _, v := range want.vals {
			if v.isInt() && got.K == rt.Int && v.I.IsInt64() && v.I.Int64() == got.I {
				return nil
			}
			if !v.isInt() && got.K == rt.Float && (got.F == v.F) && !math.IsInf(got.F, 0) {
				return nil
			}
		}
		return fmt.Errorf("%s: answered %s, expected %s", c, got, describe(want))
	case "cmp":
		want, errs, skip := cmpRef(c.Op, c.L, c.R)
		if skip != "" {
			return nil
		}
		var b strings.Builder
		var args []any
		b.WriteString(rt.QuoteAtom(c.Op) + "(")
		exprText(c.L, &b, &args)
		b.WriteString(",")
		exprText(c.R, &b, &args)
		b.WriteString(").")
		res := p.Query(b.String(), []string{}, 2, 200000, args...)
		if res.Err != nil {
			if res.Err.Kind != "ball" {
				return fmt.Errorf("%s: not a Prolog error: %s", c, res.Err)
			}
			got := errName(res.Err)
			for _, e := range errs {
				if e == got {
					return nil
				}
			}
			return fmt.Errorf("%s: raised %s, expected %v / errors %v", c, got, want, errs)
		}
		got := len(res.Answers) == 1
		for _, w := range want {
			if w == got {
				return nil
			}
		}
		return fmt.Errorf("%s: comparison answered %v, expected %v (errors %v)", c, got, want, errs)
	}
	return fmt.Errorf("infrastructure: unknown case kind %q", c.Kind)
}

func describe(o outcome) string {
	var parts []string
	for _, v := range o.vals {
		parts = append(parts, v.String())
	}
	for _, e := range o.errs {
		parts = append(parts, "error "+e)
	}
	return strings.Join(parts, " or ")
}

func init() { h.Reg("c07", check) }

// ---- the boundary grid --------------------------------------------------------------------------

var (
	gridInts   []int64
	gridFloats []float64
)

func init() {
	base := []int64{0, 1, 2, 3, 7, 10, 62, 63, 64, 65, 255, 65535, 65536,
		1<<31 - 1, 1 << 31, 1<<31 + 1, 3037000499, 3037000500, 4000000000, 1<<32 - 1, 1 << 32, 1<<32 + 1,
		1<<53 - 1, 1 << 53, 1<<53 + 1, 1 << 62, 1<<62 + 1, 1<<62 - 1, math.MaxInt64 - 1, math.MaxInt64}
	for _, b := range base {
		gridInts = append(gridInts, b)
		if b != 0 {
			gridInts = append(gridInts, -b)
		}
	}
	gridInts = append(gridInts, math.MinInt64)
	fb := []float64{0, 5e-324, 2.2250738585072014e-308, 1e-200, 0.1, 0.5, 1, 1.5, 2, 2.5, 3, 1 << 31, 1 << 53, 1<<53 + 2,
		// where float-to-integer rounding is delicate: the neighbours of 0.5, x.5 ties, odd integers in [2^52, 2^53)
		0.49999999999999994, 0.5000000000000001, 3.5, 4503599627370495.5, 4503599627370497, 9007199254740991, 4611686018427387904,
		9223372036854774784.0, 9223372036854775808.0, 9223372036854777856.0, 1e100, 1e200, 1e308, math.MaxFloat64}
	for _, f := range fb {
		gridFloats = append(gridFloats, f, -f)
	}
}

var unaryOps = []string{"-", "+", "abs", "sign", "\\", "float", "floor", "ceiling", "round", "truncate", "float_integer_part", "float_fractional_part"}
var binaryOps = []string{"+", "-", "*", "/", "//", "rem", "mod", "div", "min", "max", "/\\", "\\/", "xor", "<<", ">>", "^"}
var cmpOps = []string{"=:=", "=\\=", "<", "=<", ">", ">="}

func gridLeaves() []*rt.Term {
	var ls []*rt.Term
	for _, i := range gridInts {
		ls = append(ls, rt.I(i))
	}
	for _, f := range gridFloats {
		ls = append(ls, rt.F(f))
	}
	return ls
}

func nontrivial(c Case) (bool, string) {
	big := func(t *rt.Term) bool {
		switch t.K {
		case rt.Int:
			return t.I >= 1<<31-1 || t.I <= -(1<<31-1)
		case rt.Float:
			return math.Abs(t.F) >= 1<<31 || (t.F != 0 && math.Abs(t.F) < 1e-300)
		}
		return true // a sub-expression
	}
	switch c.Kind {
	case "lit":
		return c.Op != "dec", "literal:" + c.Op
	case "cmp":
		return big(c.L) || big(c.R), "cmp"
	default:
		if c.Expr.K != rt.Comp {
			return false, ""
		}
		n := 0
		for _, a := range c.Expr.A {
			if big(a) {
				n++
			}
		}
		if c.Expr.Depth() > 2 {
			return true, "tree"
		}
		return n == len(c.Expr.A), "grid:" + c.Expr.S
	}
}

func (c Case) hash() uint64 { return h.Hash(c) }

func runCase(r *h.R, t h.TB, c Case) {
	known := knownOf(r, c)
	r.Eval(1)
	err := check(c)
	if nt, class := nontrivial(c); nt {
		r.NonTrivial(c.hash(), class, func() any { return c.String() })
	}
	if err != nil {
		if known != "" {
			r.CountKnown(known)
			return
		}
		r.Fail(t, "c07", c, err)
	}
}

// ---- generators for the sampled part -----------------------------------------------------------------

func genInt() *rapid.Generator[int64] {
	return rapid.OneOf(
		rapid.SampledFrom(gridInts),
		rapid.Int64Range(-20, 20),
		rapid.Int64(),
		rapid.Custom(func(t *rapid.T) int64 { // boundary ± small
			b := rapid.SampledFrom(gridInts).Draw(t, "b")
			d := rapid.Int64Range(-3, 3).Draw(t, "d")
			s := new(big.Int).Add(big.NewInt(b), big.NewInt(d))
			if s.IsInt64() {
				return s.Int64()
			}
			return b
		}),
		rapid.Custom(func(t *rapid.T) int64 { // ± 2^k + d
			k := rapid.IntRange(0, 62).Draw(t, "k")
			d := rapid.Int64Range(-2, 2).Draw(t, "d")
			v := int64(1)<<uint(k) + d
			if rapid.Bool().Draw(t, "neg") {
				v = -v
			}
			return v
		}),
	)
}

func genFloat() *rapid.Generator[float64] {
	return rapid.OneOf(
		rapid.SampledFrom(gridFloats),
		rapid.Custom(func(t *rapid.T) float64 { // raw bit patterns, finite
			for {
				f := math.Float64frombits(rapid.Uint64().Draw(t, "bits"))
				if !math.IsInf(f, 0) && !math.IsNaN(f) {
					return f
				}
			}
		}),
		rapid.Custom(func(t *rapid.T) float64 { return float64(rapid.Int64Range(-1000, 1000).Draw(t, "n")) / 4 }),
		rapid.Custom(func(t *rapid.T) float64 { // neighbours of grid points
			f := rapid.SampledFrom(gridFloats).Draw(t, "f")
			g := f
			switch rapid.IntRange(0, 2).Draw(t, "dir") {
			case 0:
				g = math.Nextafter(f, math.Inf(1))
			case 1:
				g = math.Nextafter(f, math.Inf(-1))
			}
			if math.IsInf(g, 0) { // only finite floats are in the domain
				return f
			}
			return g
		}),
		rapid.Custom(func(t *rapid.T) float64 { return float64(genIntPlain().Draw(t, "i")) }),
	)
}

func genIntPlain() *rapid.Generator[int64] {
	return rapid.OneOf(rapid.SampledFrom(gridInts), rapid.Int64())
}

func genLeaf() *rapid.Generator[*rt.Term] {
	return rapid.Custom(func(t *rapid.T) *rt.Term {
		if rapid.IntRange(0, 9).Draw(t, "isfloat") < 3 {
			return rt.F(genFloat().Draw(t, "f"))
		}
		return rt.I(genInt().Draw(t, "i"))
	})
}

func genExpr(depth int) *rapid.Generator[*rt.Term] {
	return rapid.Custom(func(t *rapid.T) *rt.Term {
		if depth <= 0 || rapid.IntRange(0, 9).Draw(t, "leaf") < 3 {
			return genLeaf().Draw(t, "leaf")
		}
		if rapid.IntRange(0, 9).Draw(t, "unary") < 3 {
			op := rapid.SampledFrom(unaryOps).Draw(t, "uop")
			return rt.C(op, genExpr(depth-1).Draw(t, "x"))
		}
		op := rapid.SampledFrom(binaryOps).Draw(t, "bop")
		x := genExpr(depth-1).Draw(t, "x")
		if (op == "<<" || op == ">>") && rapid.IntRange(0, 9).Draw(t, "smallshift") < 8 {
			return rt.C(op, x, rt.I(rapid.Int64Range(0, 63).Draw(t, "s")))
		}
		if op == "^" && rapid.IntRange(0, 9).Draw(t, "smallexp") < 8 {
			return rt.C(op, x, rt.I(rapid.Int64Range(-2, 70).Draw(t, "e")))
		}
		return rt.C(op, x, genExpr(depth-1).Draw(t, "y"))
	})
}

// genNearOverflow builds a binary integer operation whose exact result lies within a few units
// of the 64-bit limits (for any operand magnitude, not only the grid's).
func genNearOverflow() *rapid.Generator[*rt.Term] {
	return rapid.Custom(func(t *rapid.T) *rt.Term {
		limit := new(big.Int).Set(two63)
		if rapid.Bool().Draw(t, "neglimit") {
			limit.Neg(limit)
		}
		limit.Add(limit, big.NewInt(rapid.Int64Range(-3, 3).Draw(t, "d")))
		var x int64
		switch rapid.IntRange(0, 3).Draw(t, "xkind") {
		case 0:
			x = rapid.Int64Range(2, 1<<16).Draw(t, "x16")
		case 1:
			x = rapid.Int64Range(1<<16, 1<<33).Draw(t, "x33")
		case 2:
			x = rapid.Int64Range(1<<33, 1<<62).Draw(t, "x62")
		default:
			x = genInt().Draw(t, "xany")
		}
		if rapid.Bool().Draw(t, "negx") {
			x = -x
		}
		if x == 0 {
			x = 3
		}
		bx := big.NewInt(x)
		var y *big.Int
		op := rapid.SampledFrom([]string{"*", "+", "-", "^", "//", "div"}).Draw(t, "op")
		switch op {
		case "*":
			y = new(big.Int).Quo(limit, bx)
			y.Add(y, big.NewInt(rapid.Int64Range(-1, 1).Draw(t, "dy")))
		case "+":
			y = new(big.Int).Sub(limit, bx)
		case "-":
			y = new(big.Int).Sub(bx, limit)
		case "^":
			// smallest e with |x|^e >= 2^63, ± 1
			e := int64(1)
			if bx.CmpAbs(big.NewInt(1)) > 0 {
				p := new(big.Int).Abs(bx)
				for p.CmpAbs(two63) < 0 {
					p.Mul(p, new(big.Int).Abs(bx))
					e++
				}
			}
			y = big.NewInt(e + rapid.Int64Range(-1, 1).Draw(t, "de"))
		default:
			// quotient near the limits: limit // ±1
			y = big.NewInt(rapid.SampledFrom([]int64{1, -1, 2, -2}).Draw(t, "ydiv"))
			bx = new(big.Int).Set(limit)
		}
		if !bx.IsInt64() || !y.IsInt64() {
			return rt.C("+", rt.I(math.MaxInt64), rt.I(rapid.Int64Range(-2, 2).Draw(t, "fallback")))
		}
		e := rt.C(op, rt.I(bx.Int64()), rt.I(y.Int64()))
		if rapid.IntRange(0, 3).Draw(t, "wrap") == 0 {
			// as a sub-expression, so that the operands are computed values, not literals
			e = rt.C(op, rt.C("+", rt.I(bx.Int64()-1), rt.I(1)), rt.I(y.Int64()))
			if bx.Int64() == math.MinInt64 {
				e = rt.C(op, rt.I(bx.Int64()), rt.I(y.Int64()))
			}
		}
		return e
	})
}

func TestProp(t *testing.T) {
	r := h.Start(t, "C07")
	defer r.Finish(t)
	r.Rule("(a) the complete boundary grid: every unary functor x every grid value, every binary functor and every comparison x every ordered pair of grid values (integers around 0, 2^31, 2^32, sqrt(2^63), 2^53, 2^62, 2^63 and floats from 5e-324 to max, both signs); (b) rapid-sampled expression trees of depth <= 4 over the same functors with leaves from the grid, uniform int64, raw float bit patterns and boundary neighbours; (c) rapid-generated integer operations whose exact result lies within 3 of +-2^63; (d) integer operands written out in the query text in every notation of ISO 6.4.4 (decimal, with leading zeros, 0b, 0o, 0x) and negated by a preceding minus: evaluated on both sides of + and compared with the same value passed as a placeholder. Oracle: math/big for integers, the harness's own IEEE operation for floats, big.Float for float-to-integer. Operands are passed as '?' placeholders and answers read structurally. Non-trivial: every operand at or beyond 2^31 in magnitude (or denormal), or a tree of depth > 2; distinct by (functor, operands).",
		"transcendental functions, ** and ^ on floats, shifts that overflow or by a count outside 0..63, >> of negative non-multiples are outside the property and not asserted",
		"when both operands of a functor raise an error either error is accepted; min/max on mixed operands that are equal after conversion accept either operand")
	r.Regress(t)
	if r.Failed() {
		return
	}

	leaves := gridLeaves()
	// (a) grid, split over shards by index
	idx := 0
	for _, op := range unaryOps {
		for _, x := range leaves {
			idx++
			if !r.Mine(idx) {
				continue
			}
			runCase(r, t, Case{Kind: "is", Expr: rt.C(op, x)})
		}
	}
	floatThird := func(i int) bool { return r.Quick() && i%3 != 0 }
	for _, op := range binaryOps {
		for i, x := range leaves {
			for j, y := range leaves {
				idx++
				if !r.Mine(idx) {
					continue
				}
				if x.K == rt.Float && y.K == rt.Float && floatThird(i+j) {
					continue
				}
				runCase(r, t, Case{Kind: "is", Expr: rt.C(op, x, y)})
			}
		}
	}
	for _, op := range cmpOps {
		for i, x := range leaves {
			for j, y := range leaves {
				idx++
				if !r.Mine(idx) {
					continue
				}
				if x.K == rt.Float && y.K == rt.Float && floatThird(i+j) {
					continue
				}
				runCase(r, t, Case{Kind: "cmp", Op: op, L: x, R: y})
			}
		}
	}
	if !r.Quick() {
		r.Exhaustive("boundary grid (unary, binary, comparison)")
	} else {
		r.Exhaustive("boundary grid: integer x integer and mixed pairs complete, float x float pairs one third")
	}
	r.LabelN("grid_cases", idx/r.NShards())

	// (b) sampled trees
	r.Rapid(t, "trees", r.Pick(300000, 20000000), func(rt_ *rapid.T) {
		var c Case
		if rapid.IntRange(0, 9).Draw(rt_, "cmp") < 2 {
			c = Case{Kind: "cmp", Op: rapid.SampledFrom(cmpOps).Draw(rt_, "op"), L: genExpr(2).Draw(rt_, "l"), R: genExpr(2).Draw(rt_, "r")}
		} else {
			c = Case{Kind: "is", Expr: genExpr(3).Draw(rt_, "e")}
			if c.Expr.K != rt.Comp {
				c.Expr = rt.C("+", c.Expr)
			}
		}
		r.Label("sampled_tree")
		runCase(r, rt_, c)
	})
	// (d) integer operands written out in the text, in every notation
	r.Rapid(t, "literals", r.Pick(20000, 600000), func(rt_ *rapid.T) {
		v := genInt().Draw(rt_, "v")
		switch rapid.IntRange(0, 3).Draw(rt_, "small") {
		case 0:
			v = int64(rapid.IntRange(0, 4096).Draw(rt_, "sv"))
		case 1:
			v = -int64(rapid.IntRange(0, 4096).Draw(rt_, "nv"))
		}
		c := Case{Kind: "lit", Op: rapid.SampledFrom(notations).Draw(rt_, "notation"), Expr: rt.I(v)}
		r.Label("sampled_literal:" + c.Op)
		runCase(r, rt_, c)
	})
	// (c) near-overflow integer operations
	r.Rapid(t, "near_overflow", r.Pick(150000, 8000000), func(rt_ *rapid.T) {
		c := Case{Kind: "is", Expr: genNearOverflow().Draw(rt_, "e")}
		r.Label("sampled_near_overflow")
		if o := evalRef(c.Expr); len(o.errs) > 0 {
			r.Label("near_overflow:expects_error")
		} else {
			r.Label("near_overflow:expects_value")
		}
		runCase(r, rt_, c)
	})
}

func TestReplay(t *testing.T) { h.Replay(t, "C07") }
func TestKnown(t *testing.T)  { h.KnownRepro(t, "C07") }
