package c13

import (
	"context"
	"errors"
	"fmt"
	"os"
	"path/filepath"
	"strings"
	"sync/atomic"
	"testing"
	"time"

	"pgregory.net/rapid"

	"verif/internal/h"
	"verif/internal/sut"
)

const program = "l :- l.\na :- b.\nb :- a.\ng(X) :- g(f(X)).\n:- dynamic(go/0).\n"

var bases = []string{
	"l", "a", "g(z)", "(repeat, fail)", "(between(1, 1000000000, _), fail)", "(length(_, _), fail)",
	"(repeat, X = a, X = b)", "(repeat, atom_length(abc, 4))", "(between(1, 1000000000, N), N < 0)",
	"(repeat, \\+ true)", "(repeat, member(Y, [1,2]), Y > 2)",
}

var wraps = []string{
	"findall(W, %s, _)", "bagof(W, %s, _)", "\\+ %s", "catch(%s, _, true)", "call(%s)", "once(%s)",
	"(%s -> true ; true)", "catch(throw(x), _, %s)", "\\+ \\+ %s", "(true, %s)", "(fail ; %s)", "setof(W, %s, _)",
}

var entries = []string{"query", "querysolution", "exec_directive", "exec_initialization", "term_expansion", "consult", "ensure_loaded"}
var cancels = []string{"step", "step", "step", "step", "async", "timeout", "precancelled", "expired"}

// Case: a looping goal = base under wrappers, run through an entry point, cancelled at an instant.
type Case struct {
	Base   int    `json:"base"`
	Wraps  []int  `json:"wraps"`
	Entry  string `json:"entry"`
	Cancel string `json:"cancel"`
	K      int64  `json:"k"` // step number (cancel == step) or delay in microseconds (async, timeout)
}

func (c Case) goal() string {
	g := bases[c.Base]
	for _, w := range c.Wraps {
		g = fmt.Sprintf(wraps[w], g)
	}
	return g
}

func (c Case) String() string {
	return fmt.Sprintf("%s via %s, cancel=%s k=%d", c.goal(), c.Entry, c.Cancel, c.K)
}

var errCancel = errors.New("verif: cancelled at step")

// errNoReturn marks the one failure after which the process holds a runaway goroutine.
type errNoReturn struct{ error }

const (
	returnBound = 30 * time.Second // a pending call must return within this after cancellation
	gapBound    = 20 * time.Second // largest admissible gap between two consecutive polls of the context
)

// gapCtx wraps StepCtx and records the largest gap between two consecutive polls.
type gapCtx struct {
	*sut.StepCtx
	last   atomic.Int64
	maxGap atomic.Int64
}

func (g *gapCtx) Done() <-chan struct{} {
	now := time.Now().UnixNano()
	if l := g.last.Swap(now); l != 0 {
		if d := now - l; d > g.maxGap.Load() {
			g.maxGap.Store(d)
		}
	}
	return g.StepCtx.Done()
}

func check(c Case) error {
	i := sut.New()
	if e := i.Exec(program, 200000); e != nil {
		return fmt.Errorf("infrastructure: %s", e)
	}
	goal := c.goal()
	var (
		ctx      context.Context
		wantErr  error
		sc       *gapCtx
		cancelAt atomic.Int64
		stop     = func() {}
	)
	switch c.Cancel {
	case "step":
		sc = &gapCtx{StepCtx: sut.NewStepCtx(c.K, errCancel)}
		ctx, wantErr = sc, errCancel
	case "async":
		cctx, cancel := context.WithCancel(context.Background())
		ctx, wantErr = cctx, context.Canceled
		go func() {
			time.Sleep(time.Duration(c.K) * time.Microsecond)
			cancelAt.Store(time.Now().UnixNano())
			cancel()
		}()
		stop = cancel
	case "timeout":
		cctx, cancel := context.WithTimeout(context.Background(), time.Duration(c.K)*time.Microsecond)
		ctx, wantErr = cctx, context.DeadlineExceeded
		cancelAt.Store(time.Now().Add(time.Duration(c.K) * time.Microsecond).UnixNano())
		stop = cancel
	case "precancelled":
		cctx, cancel := context.WithCancel(context.Background())
		cancel()
		ctx, wantErr = cctx, context.Canceled
		cancelAt.Store(time.Now().UnixNano())
	case "expired":
		cctx, cancel := context.WithDeadline(context.Background(), time.Now().Add(-time.Second))
		ctx, wantErr = cctx, context.DeadlineExceeded
		cancelAt.Store(time.Now().UnixNano())
		stop = cancel
	default:
		return fmt.Errorf("infrastructure: cancel kind %q", c.Cancel)
	}
	defer stop()

	var file string
	if c.Entry == "consult" || c.Entry == "ensure_loaded" {
		dir, err := os.MkdirTemp("", "c13-")
		if err != nil {
			return fmt.Errorf("infrastructure: %v", err)
		}
		defer os.RemoveAll(dir)
		file = filepath.Join(dir, "prog.pl")
		// the file loops only while go/0 holds, so that it can be loaded again afterwards
		if err := os.WriteFile(file, []byte("loaded(yes).\n:- (go -> "+goal+" ; true).\n"), 0o644); err != nil {
			return fmt.Errorf("infrastructure: %v", err)
		}
		if e := i.Exec(":- assertz(go).\n", 100000); e != nil {
			return fmt.Errorf("infrastructure: %s", e)
		}
	}
	if c.Entry == "term_expansion" {
		if e := i.Exec("term_expansion(looping_clause, _) :- "+goal+".\n", 100000); e != nil {
			return fmt.Errorf("infrastructure: %s", e)
		}
	}

	var gotErr error
	var gotAnswer bool
	call := func() {
		switch c.Entry {
		case "query":
			sols, err := i.P.QueryContext(ctx, goal+".")
			if err != nil {
				gotErr = err
				return
			}
			gotAnswer = sols.Next()
			gotErr = sols.Err()
			_ = sols.Close()
		case "querysolution":
			sol := i.P.QuerySolutionContext(ctx, goal+".")
			gotErr = sol.Err()
		case "exec_directive":
			gotErr = i.P.ExecContext(ctx, ":- "+goal+".\n")
		case "exec_initialization":
			gotErr = i.P.ExecContext(ctx, ":- initialization("+goal+").\n")
		case "term_expansion":
			gotErr = i.P.ExecContext(ctx, "looping_clause.\n")
		case "consult":
			gotErr = i.P.ExecContext(ctx, ":- consult('"+file+"').\n")
		case "ensure_loaded": // (a directive the loader handles itself, without going through call/1)
			gotErr = i.P.ExecContext(ctx, ":- ensure_loaded('"+file+"').\n")
		}
	}
	done := make(chan struct{})
	start := time.Now()
	go func() { call(); close(done) }()
	select {
	case <-done:
	case <-time.After(returnBound + time.Duration(c.K)*time.Microsecond):
		return errNoReturn{fmt.Errorf("the call did not return within %v of the cancellation (%s)", returnBound, c)}
	}
	returned := time.Now()
	if gotAnswer {
		return fmt.Errorf("the looping query produced an answer")
	}
	if gotErr == nil || !errors.Is(gotErr, wantErr) {
		return fmt.Errorf("the call returned %v, expected the context's error %v", gotErr, wantErr)
	}
	if sc != nil {
		depth := int64(len(c.Wraps) + 2)
		if after := sc.After(); after > 2*depth+8 {
			return fmt.Errorf("%d further polls of the context after it was cancelled at step %d (nesting %d): not prompt", after, c.K, depth)
		}
		if gap := time.Duration(sc.maxGap.Load()); gap > gapBound {
			return fmt.Errorf("the context was not polled for %v during the run", gap)
		}
	} else if at := cancelAt.Load(); at != 0 {
		if d := returned.Sub(time.Unix(0, at)); d > 15*time.Second {
			return fmt.Errorf("the call returned %v after the cancellation", d)
		}
	}
	_ = start
	// the interpreter stays usable
	res := i.Query("member(X, [1,2,3]).", []string{"X"}, 10, 200000)
	if res.Err != nil || len(res.Answers) != 3 || !res.Exhausted {
		return fmt.Errorf("after the cancelled call member(X,[1,2,3]) gives %d answers, err %v", len(res.Answers), res.Err)
	}
	res = i.Query("findall(X, (member(X, [1,2,3]), X > 1), L), catch(throw(b), B, true).", []string{"L", "B"}, 2, 200000)
	if res.Err != nil || len(res.Answers) != 1 || res.Answers[0][0].String() != "[2,3]" {
		return fmt.Errorf("after the cancelled call a findall/catch query gives %v, err %v", res.Answers, res.Err)
	}
	if c.Entry == "consult" || c.Entry == "ensure_loaded" {
		// the same file can be loaded again (now terminating) and defines its clauses
		if e := i.Exec(":- retract(go).\n:- consult('"+file+"').\n", 500000); e != nil {
			return fmt.Errorf("loading the file again after the cancelled load failed: %s", e)
		}
		res := i.Query("loaded(X).", []string{"X"}, 2, 100000)
		if res.Err != nil || len(res.Answers) != 1 {
			return fmt.Errorf("after loading the file again, loaded(X) gives %d answers, err %v: the cancelled load left the file marked as loaded", len(res.Answers), res.Err)
		}
	}
	if c.Entry == "term_expansion" {
		if e := i.Exec(":- retractall(term_expansion(_, _)).\nother_clause.\n", 500000); e != nil && !strings.Contains(e.String(), "permission_error") {
			return fmt.Errorf("after the cancelled load a further load fails: %s", e)
		}
	}
	return nil
}

func init() { h.Reg("c13", check) }

func genCase() *rapid.Generator[Case] {
	return rapid.Custom(func(t *rapid.T) Case {
		u := func(n int, l string) int { return int(rapid.Uint64().Draw(t, l) % uint64(n)) }
		c := Case{Base: u(len(bases), "base")}
		for i, n := 0, u(4, "nwraps"); i < n; i++ {
			c.Wraps = append(c.Wraps, u(len(wraps), "wrap"))
		}
		switch e := u(20, "entry"); {
		case e < 9:
			c.Entry = "query"
		case e < 12:
			c.Entry = "querysolution"
		case e < 15:
			c.Entry = "exec_directive"
		case e < 17:
			c.Entry = "exec_initialization"
		case e < 18:
			c.Entry = "term_expansion"
		case e < 19:
			c.Entry = "consult"
		default:
			c.Entry = "ensure_loaded"
		}
		c.Cancel = cancels[u(len(cancels), "cancel")]
		switch c.Cancel {
		case "step":
			// instants from 'the first step' to 'deep into the run'
			ks := []int64{1, 2, 3, 4, 5, 6, 8, 10, 13, 20, 50, 100, 333, 1000, 5000, 20000, 100000}
			c.K = ks[u(len(ks), "k")] + int64(u(3, "jitter"))
		case "async", "timeout":
			c.K = int64(u(20000, "delay_us"))
		}
		return c
	})
}

func TestProp(tt *testing.T) {
	t := tt
	r := h.Start(t, "C13")
	defer r.Finish(t)
	r.Rule(fmt.Sprintf("rapid-generated cases: a base loop (%d kinds: direct and mutual recursion, growing-structure recursion, repeat/fail, between/3 and length/2 enumerations, repeat followed by deterministic built-ins that fail) under 0-3 wrappers (findall, bagof, setof, \\+, catch, a catch whose recovery loops, call, once, ->, double negation, conjunction, disjunction), run through QueryContext, QuerySolutionContext, ExecContext (directive, initialization/1, a looping term_expansion/2, consult/1 and the ensure_loaded/1 directive of a file whose directive loops) x cancellation instants: exactly at trampoline step k for k from 1 to 10^5 (a context whose Done() counts polls: the harness owns the instant), asynchronous cancel() after 0-20 ms, WithTimeout, an already cancelled context, an expired deadline. Oracle: the pending call returns within %v; its error errors.Is the context's error; for step-exact cancellation at most 2*nesting+8 further polls happen after the cancellation and the largest gap between two consecutive polls during the run is below %v (which bounds the delay for every asynchronous instant); afterwards the same interpreter answers member/2 and findall/catch queries correctly, a consulted file can be loaded again and defines its clauses. Non-trivial: cancellation after at least one step inside at least one nested trampoline (a wrapper) or through Exec. Distinct by case.", len(bases), returnBound, gapBound),
		"Promise.Force polls ctx.Done() once per trampoline step (observed in the source); wall-clock bounds are >= 1000x the typical delay")
	r.Regress(t)
	if r.Failed() {
		return
	}
	r.Rapid(t, "cancellation", r.Pick(12000, 400000), func(t *rapid.T) {
		c := genCase().Draw(t, "case")
		r.Label("sampled")
		r.Label("entry:" + c.Entry)
		r.Label("cancel:" + c.Cancel)
		r.Eval(1)
		if (len(c.Wraps) > 0 || c.Entry != "query") && c.Cancel != "precancelled" && c.Cancel != "expired" && !(c.Cancel == "step" && c.K <= 1) {
			r.NonTrivial(h.Hash(c), c.Entry+":"+c.Cancel, func() any { return c.String() })
		}
		if err := check(c); err != nil {
			if _, fatal := err.(errNoReturn); fatal {
				r.FailFatal(tt, "c13", c, err)
			}
			r.Fail(t, "c13", c, err)
		}
	})
}

func TestReplay(t *testing.T) { h.Replay(t, "C13") }
func TestKnown(t *testing.T)  { h.KnownRepro(t, "C13") }
