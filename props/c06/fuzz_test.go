package c06

import (
	"encoding/json"
	"os"
	"path/filepath"
	"testing"

	"pgregory.net/rapid"

	"verif/internal/h"
)

// Native coverage-guided fuzzing of the round trip (thorough tier): the fuzzer's bytes drive the
// same rapid generators (rapid.MakeFuzz is the data-provider layer), so the fuzzer explores the
// structured term / operator-table space guided by coverage of the writer and the reader.
func FuzzRoundTrip(f *testing.F) {
	known := false
	for _, k := range h.LoadKnown(h.Root()) {
		if k.Property == "C06" && k.Kind == "known" && k.ID == knownFFFD {
			known = true
		}
	}
	f.Fuzz(rapid.MakeFuzz(func(t *rapid.T) {
		c := genCase().Draw(t, "case")
		if known && c.Kind == "term" && hasFFFD(c.Term) {
			return
		}
		if err := check(c); err != nil {
			if dir := os.Getenv("VERIF_FUZZFAIL"); dir != "" {
				b, _ := json.Marshal(c)
				s, _ := json.MarshalIndent(h.Saved{Property: "C06", Check: "c06", Message: err.Error(), Case: b}, "", " ")
				_ = os.WriteFile(filepath.Join(dir, "fuzzfail-"+itoa(h.Hash(b))+".json"), s, 0o644)
			}
			t.Fatalf("VIOLATION %v", err)
		}
	}))
}

func itoa(x uint64) string {
	const hex = "0123456789abcdef"
	out := make([]byte, 16)
	for i := range out {
		out[i] = hex[(x>>(uint(60-4*i)))&15]
	}
	return string(out)
}
