package c06

import (
	"context"
	"fmt"
	"math"
	"strings"
	"testing"
	"unicode"

	"github.com/ichiban/prolog/engine"
	"pgregory.net/rapid"

	"verif/internal/h"
	"verif/internal/rt"
	"verif/internal/sut"
)

// OpDef is one op/3 call of the table-building history.
type OpDef struct {
	P    int64  `json:"p"`
	T    string `json:"t"`
	Name string `json:"name"`
}

// Case "term": write the term under the table/flag/options and read it back. "number": number_codes /
// number_chars there and back.
type Case struct {
	Kind string   `json:"kind"`
	Ops  []OpDef  `json:"ops,omitempty"`
	DQ   string   `json:"dq,omitempty"`
	Opts int      `json:"opts,omitempty"` // 0 quoted(true); 1 +ignore_ops(true) (write_canonical); 2 +numbervars(true) (writeq)
	Term *rt.Term `json:"term"`
	// Share: equal compound subterms are one Go value (what binding a variable to a compound and using the
	// variable twice produces: P = point(1,2), T = line(P, P)) instead of separate equal instances.
	Share bool `json:"share,omitempty"`
}

var optNames = []string{"[quoted(true)]", "[quoted(true), ignore_ops(true)]", "[quoted(true), numbervars(true)]"}

func (c Case) String() string {
	var ops []string
	for _, o := range c.Ops {
		ops = append(ops, fmt.Sprintf("op(%d,%s,%q)", o.P, o.T, o.Name))
	}
	return fmt.Sprintf("%s %s under %s, double_quotes=%s, write options %s", c.Kind, termDebug(c.Term), strings.Join(ops, " "), c.DQ, optNames[c.Opts])
}

// termDebug shows a term unambiguously (atom text quoted with %q).
func termDebug(t *rt.Term) string {
	switch t.K {
	case rt.Var:
		return fmt.Sprintf("_%d", t.I)
	case rt.Atom:
		return fmt.Sprintf("%q", t.S)
	case rt.Int:
		return fmt.Sprint(t.I)
	case rt.Float:
		return fmt.Sprintf("%s<%x>", rt.FloatText(t.F), math.Float64bits(t.F))
	case rt.Comp:
		as := make([]string, len(t.A))
		for i, a := range t.A {
			as[i] = termDebug(a)
		}
		return fmt.Sprintf("%q(%s)", t.S, strings.Join(as, ","))
	}
	return t.String()
}

func build(t *rt.Term, vars map[int64]engine.Variable, memo map[string]engine.Term) engine.Term {
	if memo != nil && t.K == rt.Comp {
		k := termDebug(t)
		if b, ok := memo[k]; ok {
			return b
		}
		b := build1(t, vars, memo)
		memo[k] = b
		return b
	}
	return build1(t, vars, memo)
}

func build1(t *rt.Term, vars map[int64]engine.Variable, memo map[string]engine.Term) engine.Term {
	switch t.K {
	case rt.Var:
		if v, ok := vars[t.I]; ok {
			return v
		}
		v := engine.NewVariable()
		vars[t.I] = v
		return v
	case rt.Atom:
		return engine.NewAtom(t.S)
	case rt.Int:
		return engine.Integer(t.I)
	case rt.Float:
		return engine.Float(t.F)
	case rt.Comp:
		args := make([]engine.Term, len(t.A))
		for i, a := range t.A {
			args[i] = build(a, vars, memo)
		}
		return engine.NewAtom(t.S).Apply(args...)
	}
	return engine.NewAtom("$opaque")
}

const knownFFFD = "c06-atom-replacement-char"

// hasFFFD is the input classifier of known finding c06-atom-replacement-char: an atom (or functor)
// whose text contains U+FFFD cannot be read back in any notation (the lexer uses U+FFFD as its
// in-band marker for an invalid escape).
func hasFFFD(t *rt.Term) bool {
	if (t.K == rt.Atom || t.K == rt.Comp) && strings.ContainsRune(t.S, unicode.ReplacementChar) {
		return true
	}
	for _, a := range t.A {
		if hasFFFD(a) {
			return true
		}
	}
	return false
}

func hasVarFunctor(t *rt.Term) bool {
	if t.Is("$VAR", 1) {
		return true
	}
	for _, a := range t.A {
		if hasVarFunctor(a) {
			return true
		}
	}
	return false
}

func setup(c Case) (*sut.I, int, error) {
	i := sut.New()
	defined := 0
	if c.DQ != "" { // before the operator table changes (the directive syntax needs the prefix :- operator)
		if e := i.Exec(":- set_prolog_flag(double_quotes, "+c.DQ+").\n", 100000); e != nil {
			return nil, 0, fmt.Errorf("infrastructure: %s", e)
		}
	}
	for _, o := range c.Ops {
		ok, err := engine.Op(&i.P.VM, engine.Integer(o.P), engine.NewAtom(o.T), engine.NewAtom(o.Name), engine.Success, nil).Force(context.Background())
		if err == nil && ok {
			defined++
		}
	}
	return i, defined, nil
}

func checkTerm(c Case) error {
	i, _, err := setup(c)
	if err != nil {
		return err
	}
	a := engine.NewAtom
	tr := a("true")
	opts := [][]engine.Term{
		{a("quoted").Apply(tr)},
		{a("quoted").Apply(tr), a("ignore_ops").Apply(tr)},
		{a("quoted").Apply(tr), a("numbervars").Apply(tr)},
	}[c.Opts]
	var memo map[string]engine.Term
	if c.Share {
		memo = map[string]engine.Term{}
	}
	term := build(c.Term, map[int64]engine.Variable{}, memo)
	var sb strings.Builder
	ok, werr := engine.WriteTerm(&i.P.VM, engine.NewOutputTextStream(&sb), term, engine.List(opts...), engine.Success, nil).Force(context.Background())
	if werr != nil || !ok {
		return fmt.Errorf("write_term of %s failed: %v", termDebug(c.Term), werr)
	}
	text := sb.String()
	v := engine.NewVariable()
	var got *rt.Term
	ok, rerr := engine.ReadTerm(&i.P.VM, engine.NewInputTextStream(strings.NewReader(text+" .")), v, engine.List(), func(env *engine.Env) *engine.Promise {
		got = sut.Convert(v, env)
		return engine.Bool(true)
	}, nil).Force(context.Background())
	if rerr != nil || !ok {
		return fmt.Errorf("the text %q written for %s is not accepted by read_term: %v", text, termDebug(c.Term), rerr)
	}
	if !rt.Variant(got, c.Term) {
		return fmt.Errorf("the text %q written for %s reads back as %s", text, termDebug(c.Term), termDebug(got))
	}
	return nil
}

func checkNumber(c Case) error {
	i := sut.New()
	var arg interface{}
	switch c.Term.K {
	case rt.Int:
		arg = c.Term.I
	case rt.Float:
		arg = c.Term.F
	default:
		return fmt.Errorf("infrastructure: not a number")
	}
	for _, p := range []string{"number_codes", "number_chars"} {
		res := i.Query(fmt.Sprintf("N = ?, %s(N, Cs), %s(M, Cs).", p, p), []string{"N", "M", "Cs"}, 2, 500000, arg)
		if res.Err != nil || len(res.Answers) != 1 {
			return fmt.Errorf("%s there and back failed for %s: %v (%d answers)", p, termDebug(c.Term), res.Err, len(res.Answers))
		}
		if !rt.Equal(res.Answers[0][0], c.Term) || !rt.Equal(res.Answers[0][1], c.Term) {
			return fmt.Errorf("%s turned %s into text %s which it turns back into %s", p, termDebug(c.Term), res.Answers[0][2], termDebug(res.Answers[0][1]))
		}
	}
	return nil
}

func check(c Case) error {
	if c.Kind == "number" {
		return checkNumber(c)
	}
	return checkTerm(c)
}

func init() { h.Reg("c06", check) }

// ---- generators -----------------------------------------------------------------------------------------

var atomPool = []string{
	// solo
	"!", ";", "[]", "{}", ",", "|",
	// graphic
	"+", "-", "*", "/", "\\", "^", "<", ">", "=", "~", ":", ".", "?", "@", "#", "&", "$", "-->", ":-", "?-", "->", "\\+", "=..", "**", "//", "/*", "..", "=:=", "- ", "<>", "##",
	// alphanumeric
	"a", "b", "foo", "e", "E", "x", "is", "mod", "rem", "div", "op1", "op2", "p", "q", "fooBar_1", "dynamic",
	// needing quotes
	"hello world", "A", "_x", "", "1a", "a.b", "[", "]", "(", ")", "{", "}", "'", "\"", "`", "%", "a b", "Up", "_", " ", "()", "[ ]", "{ }", ", ",
	// escapes and control characters
	"\n", "\t", "a\nb", "\\", "\\\\", "'\\''", "\x00", "\x7f", "\x01", "\r", "\x1b", "\a", "\b", "\f", "\v",
	// non-ASCII letters, non-letter Unicode
	"é", "日本", "Ärger", "ǅ", "٣", "€", "😀", " ", "\u0085", " ", "​", "x€y", "é b", "À",
	"$VAR", "end_of_file", "\U0010FFFF", "\U0010FFFE", "\uD7FF", "\uE000", "\uFFFF",
}

var specs = []string{"xfx", "xfy", "yfx", "fy", "fx", "xf", "yf"}
var priorities = []int64{0, 1, 100, 200, 400, 500, 699, 700, 701, 999, 1000, 1001, 1105, 1199, 1200}

func u(t *rapid.T, n int, l string) int { return int(rapid.Uint64().Draw(t, l) % uint64(n)) }

type gg struct {
	t       *rapid.T
	opNames []string   // names touched by the generated op/3 history (so atoms in the term are current operators)
	comps   []*rt.Term // compound subterms generated so far (to be repeated)
}

func (x *gg) atomText() string {
	switch k := u(x.t, 10, "atomkind"); {
	case k < 5:
		return atomPool[u(x.t, len(atomPool), "pool")]
	case k < 7 && len(x.opNames) > 0:
		return x.opNames[u(x.t, len(x.opNames), "opname")]
	case k < 8:
		return []string{"+", "-", "*", "=", ",", "|", ";", ":-", "->", "\\+", "is", "mod", "^", "-->"}[u(x.t, 14, "isoop")]
	case k < 9:
		// random text
		n := 1 + u(x.t, 4, "len")
		var b strings.Builder
		for i := 0; i < n; i++ {
			b.WriteRune(rapid.Rune().Draw(x.t, "rune"))
		}
		return b.String()
	default:
		return string(rune('a' + u(x.t, 26, "letter")))
	}
}

var intPool = []int64{0, 1, -1, 2, 7, 10, -10, 255, 65536, math.MaxInt64, math.MinInt64, math.MaxInt64 - 1, math.MinInt64 + 1, 1 << 53, -(1 << 53)}
var floatPool = []float64{0, 1, -1, 0.5, -0.5, 1.5, 1e10, 1e-10, 1e22, 1e23, 1e21, 1e-7, 123456789.125, math.MaxFloat64, -math.MaxFloat64, 5e-324, 2.2250738585072014e-308, 0.1, 0.30000000000000004, 5.705004189984573e-117, 1e100, 1.0e15, 1.0e16, 1.0e17, 100000.0, 1e-4, 1e-5, math.Copysign(0, -1)}

func (x *gg) number() *rt.Term {
	switch u(x.t, 6, "numkind") {
	case 0:
		return rt.I(intPool[u(x.t, len(intPool), "int")])
	case 1:
		return rt.I(rapid.Int64().Draw(x.t, "i64"))
	case 2:
		return rt.I(int64(u(x.t, 21, "small")) - 10)
	case 3:
		return rt.F(floatPool[u(x.t, len(floatPool), "float")])
	case 4:
		for {
			f := math.Float64frombits(rapid.Uint64().Draw(x.t, "bits"))
			if !math.IsInf(f, 0) && !math.IsNaN(f) {
				return rt.F(f)
			}
		}
	default:
		// powers of ten and their neighbours
		e := u(x.t, 60, "exp") - 30
		f := math.Pow(10, float64(e))
		switch u(x.t, 3, "nb") {
		case 0:
			f = math.Nextafter(f, 0)
		case 1:
			f = math.Nextafter(f, math.Inf(1))
		}
		if u(x.t, 2, "neg") == 0 {
			f = -f
		}
		return rt.F(f)
	}
}

func (x *gg) term(d int) *rt.Term {
	if len(x.comps) > 0 && u(x.t, 8, "repeat") == 0 {
		return x.comps[u(x.t, len(x.comps), "which")]
	}
	t := x.term1(d)
	if t.K == rt.Comp {
		x.comps = append(x.comps, t)
	}
	return t
}

func (x *gg) term1(d int) *rt.Term {
	if d >= 2 && u(x.t, 60, "manyvars") == 59 {
		// many distinct variables, each occurring twice (the reader keeps the variables of a term in a table)
		n := []int{9, 17, 33, 64, 65, 66, 80, 129, 257}[u(x.t, 9, "nvars")]
		es := make([]*rt.Term, n)
		for i := range es {
			es[i] = rt.V(int64(100 + i))
		}
		return rt.C("f", rt.List(es, nil), rt.List(es, nil))
	}
	if d <= 0 {
		switch u(x.t, 5, "leaf") {
		case 0, 1:
			return x.number()
		case 2:
			return rt.V(int64(u(x.t, 3, "var")))
		default:
			return rt.A(x.atomText())
		}
	}
	if len(x.opNames) > 0 && u(x.t, 12, "opapply") == 0 {
		// a current operator of the generated table applied to operands that need brackets or spacing:
		// the writer's decisions depend on the operator's name class and on what follows it
		name := x.opNames[u(x.t, len(x.opNames), "opname2")]
		hi := rt.C([]string{",", ";", ":-", "->", "=", "+", "-"}[u(x.t, 7, "hiop")], x.term(d-1), x.term(d-1))
		switch u(x.t, 4, "opform") {
		case 0:
			return rt.C(name, hi)
		case 1:
			return rt.C(name, hi, x.term(d-1))
		case 2:
			return rt.C(name, x.term(d-1), hi)
		default:
			return rt.C(name, rt.C(name, x.term(d-1)))
		}
	}
	switch k := u(x.t, 14, "shape"); {
	case k < 1:
		return x.number()
	case k < 2:
		return rt.A(x.atomText())
	case k < 4:
		n := u(x.t, 4, "listlen")
		es := make([]*rt.Term, n)
		for i := range es {
			es[i] = x.term(d - 1)
		}
		if n > 0 && u(x.t, 3, "partial") == 0 {
			return rt.List(es, x.term(d-1))
		}
		return rt.List(es, nil)
	case k < 5:
		return rt.C("{}", x.term(d-1))
	case k < 8:
		return rt.C(x.atomText(), x.term(d-1))
	case k < 12:
		return rt.C(x.atomText(), x.term(d-1), x.term(d-1))
	case k < 13:
		return rt.C(x.atomText(), x.term(d-1), x.term(d-1), x.term(d-1))
	default:
		// negative numbers as operands, and operators applied to them
		n := x.number()
		if u(x.t, 2, "wrapneg") == 0 {
			return rt.C("-", n)
		}
		return rt.C([]string{"-", "+", "^", "*", "mod"}[u(x.t, 5, "binop")], x.term(d-1), n)
	}
}

func genCase() *rapid.Generator[Case] {
	return rapid.Custom(func(t *rapid.T) Case {
		x := &gg{t: t}
		if u(t, 6, "number") == 0 {
			return Case{Kind: "number", Term: x.number()}
		}
		c := Case{Kind: "term", DQ: []string{"codes", "chars", "atom"}[u(t, 3, "dq")], Opts: u(t, 3, "opts")}
		for k, n := 0, u(t, 7, "nops"); k < n; k++ {
			name := x.atomText()
			if u(t, 3, "plainopname") == 0 {
				name = []string{"op1", "op2", "p", "q", "~", "<>", "&", "##", "e", "x", "E"}[u(t, 11, "pn")]
			}
			c.Ops = append(c.Ops, OpDef{P: priorities[u(t, len(priorities), "pri")], T: specs[u(t, len(specs), "spec")], Name: name})
			x.opNames = append(x.opNames, name)
		}
		c.Term = x.term(u(t, 4, "depth"))
		c.Share = u(t, 2, "share") == 0
		if c.Opts == 2 && hasVarFunctor(c.Term) {
			c.Opts = 0 // '$VAR'(N) terms are excluded for numbervars(true): its output is by definition not re-readable
		}
		return c
	})
}

func isOpAtom(s string) bool {
	switch s {
	case "+", "-", "*", "/", "\\", "^", "<", ">", "=", ":", "-->", ":-", "?-", "->", "\\+", "=..", "**", "//", "=:=", "is", "mod", "rem", "div", ",", "|", ";":
		return true
	}
	return false
}

func needsQuote(s string) bool {
	if s == "" {
		return true
	}
	if s == "[]" || s == "{}" || s == "!" || s == ";" {
		return false
	}
	alnum := s[0] >= 'a' && s[0] <= 'z'
	graphic := true
	for _, r := range s {
		if !(r >= 'a' && r <= 'z' || r >= 'A' && r <= 'Z' || r >= '0' && r <= '9' || r == '_') {
			alnum = false
		}
		if !strings.ContainsRune("#$&*+-./:<=>?@^~\\", r) {
			graphic = false
		}
	}
	return !alnum && !graphic
}

func nontrivial(c Case) bool {
	if c.Kind == "number" {
		return c.Term.K == rt.Float || c.Term.I > 1<<31 || c.Term.I < -(1<<31)
	}
	names := map[string]bool{}
	for _, o := range c.Ops {
		names[o.Name] = true
	}
	found := false
	var walk func(t *rt.Term)
	walk = func(t *rt.Term) {
		switch t.K {
		case rt.Atom, rt.Comp:
			if names[t.S] || isOpAtom(t.S) || needsQuote(t.S) {
				found = true
			}
		case rt.Float:
			found = true
		}
		for _, a := range t.A {
			walk(a)
		}
	}
	walk(c.Term)
	return found && c.Term.Depth() >= 2
}

// repeats: some compound subterm occurs at two places.
func repeats(t *rt.Term) bool {
	seen := map[string]bool{}
	dup := false
	var walk func(t *rt.Term)
	walk = func(t *rt.Term) {
		if t.K != rt.Comp {
			return
		}
		k := termDebug(t)
		if seen[k] {
			dup = true
			return
		}
		seen[k] = true
		for _, a := range t.A {
			walk(a)
		}
	}
	walk(t)
	return dup
}

func TestProp(t *testing.T) {
	r := h.Start(t, "C06")
	defer r.Finish(t)
	r.Rule("rapid-generated terms built with the engine's constructors (so any atom text can occur): atoms from every lexical class - solo, graphic, alphanumeric, needing quotes, with escapes and control characters, empty, non-ASCII letters, non-letter Unicode (currency, emoji, NBSP, U+0085, U+2028, zero-width space, titlecase, non-ASCII digits), random runes; 64-bit integers incl. min/max; finite floats from raw bit patterns, powers of ten and their neighbours, subnormals, max, -0.0; shared variables (also 9-257 distinct variables in one term, each occurring twice); repeated compound subterms, as separate equal values or (half of the cases) as one Go value at several places, which is what a variable bound to a compound and used twice gives; compounds of arity 1-3 whose functors are drawn from the same pools (operators as atoms, operands and functors; prefix/infix/postfix; an atom that is prefix and infix at once); proper and partial lists; {}-terms; negative numbers as operands of operators; depth <= 4 - under an operator table produced by a generated sequence of 0-6 op/3 calls (priorities at the 699/700/701, 999/1000/1001, 1200 boundaries, every specifier, names drawn from the same atom pools so atoms of the term are current operators) x double_quotes in {codes, chars, atom} x write options {quoted(true); +ignore_ops(true) (write_canonical); +numbervars(true) (writeq, '$VAR'(N) excluded)}. Oracle (round trip): WriteTerm into memory, ' .' appended, ReadTerm under the same table and flags: the result must be identical to the original up to variable renaming, floats bit-for-bit. Second oracle: number_codes/2 and number_chars/2 there and back on generated numbers (passed as placeholders, read structurally). Non-trivial: the term contains a current operator, an atom needing quotes or a float, and has depth >= 2 (numbers: a float or an integer beyond 32 bits). Distinct by case.",
		"structural comparison through the Compound interface; the operator table is set up through engine.Op so the lexer is not on the set-up path")
	r.Regress(t)
	if r.Failed() {
		return
	}
	r.Rapid(t, "roundtrip", r.Pick(120000, 4000000), func(t *rapid.T) {
		c := genCase().Draw(t, "case")
		r.Label("sampled_" + c.Kind)
		if c.Kind == "term" {
			r.Label("options:" + optNames[c.Opts])
		}
		if r.KnownListed(knownFFFD) && c.Kind == "term" && hasFFFD(c.Term) {
			r.CountKnown(knownFFFD) // excluded by construction so that the search continues behind the finding
			return
		}
		r.Eval(1)
		if c.Kind == "term" && c.Share && repeats(c.Term) {
			r.Label("one_compound_value_at_two_places")
		}
		if nontrivial(c) {
			r.NonTrivial(h.Hash(c), c.Kind, func() any { return c.String() })
		}
		if err := check(c); err != nil {
			r.Fail(t, "c06", c, err)
		}
	})
}

func TestReplay(t *testing.T) { h.Replay(t, "C06") }
func TestKnown(t *testing.T)  { h.KnownRepro(t, "C06") }
