package c18

import (
	"fmt"
	"strings"

	"verif/internal/rt"
	"verif/internal/sut"
)

// Mixed expressions: a token sequence over operands (a, b, c, or N(b,c,d): a current operator name used
// as a functor in functional notation) and operator names of the current table, read under that table.
//
// Oracle: the enumeration of *all* derivations ISO 6.3.4 allows for the sequence under the model table
// (operand: priority 0; prefix op of priority P: argument <= P (fy) or P-1 (fx), the term has priority P;
// likewise postfix and infix; the whole text may have priority 1200). No derivation: the text must be
// refused. Exactly one: it must be read as that term, and writeq of the term must read back as it. More
// than one (the ISO grammar is ambiguous there): nothing is asserted.
//
// Only names that have exactly one operator class in the model, are plain (written without quotes) and
// are not ',' or '|' are used, every prefix operator token is followed by an operand or another prefix
// operator, every postfix operator token is preceded by an operand or a postfix operator, and every infix
// operator token stands between the two, so an operator never has to be read as an atom.

type mtok struct {
	text    string
	operand *rt.Term // nil: an operator token
	name    string
}

type parse struct {
	t   *rt.Term
	pri int64
}

func mixTokens(m map[key]ent, mix []string) ([]mtok, bool) {
	var out []mtok
	for _, s := range mix {
		switch {
		case s == "a" || s == "b" || s == "c":
			out = append(out, mtok{text: s, operand: rt.A(s)})
		case strings.HasPrefix(s, "@"):
			n := s[1:]
			if !plainName(n) || n == "," || n == "|" {
				return nil, false
			}
			out = append(out, mtok{text: n + "(b,c,d)", operand: rt.C(n, rt.A("b"), rt.A("c"), rt.A("d"))})
		default:
			if !plainName(s) || s == "," || s == "|" || s == "a" || s == "b" || s == "c" || s == "d" {
				return nil, false
			}
			classes := 0
			for c := 0; c < 3; c++ {
				if _, ok := m[key{s, c}]; ok {
					classes++
				}
			}
			if classes != 1 {
				return nil, false
			}
			out = append(out, mtok{text: s, name: s})
		}
	}
	// shape restriction (see above)
	for k, t := range out {
		if t.operand != nil {
			// N(b,c,d) directly after a complete term is not one operand: if N is an infix operator the text reads
			// as "term N (b,c,d)" - the operator followed by a bracketed term. It must stand in operand position.
			if t.operand.K == rt.Comp && k > 0 {
				pv := out[k-1]
				_, pvPre := m[key{pv.name, 0}]
				_, pvIn := m[key{pv.name, 2}]
				if pv.operand != nil || !(pvPre || pvIn) {
					return nil, false
				}
			}
			continue
		}
		_, pre := m[key{t.name, 0}]
		_, post := m[key{t.name, 1}]
		if pre {
			if k+1 >= len(out) {
				return nil, false
			}
			nx := out[k+1]
			_, nxPre := m[key{nx.name, 0}]
			if nx.operand == nil && !nxPre {
				return nil, false
			}
		}
		if post {
			if k == 0 {
				return nil, false
			}
			pv := out[k-1]
			_, pvPost := m[key{pv.name, 1}]
			if pv.operand == nil && !pvPost {
				return nil, false
			}
		}
		if _, in := m[key{t.name, 2}]; in {
			if k == 0 || k+1 >= len(out) {
				return nil, false
			}
			pv, nx := out[k-1], out[k+1]
			_, pvPost := m[key{pv.name, 1}]
			_, nxPre := m[key{nx.name, 0}]
			if (pv.operand == nil && !pvPost) || (nx.operand == nil && !nxPre) {
				return nil, false
			}
		}
	}
	return out, len(out) > 0
}

// derivations returns every distinct term the tokens can denote.
func derivations(m map[key]ent, toks []mtok) []*rt.Term {
	n := len(toks)
	memo := map[[2]int][]parse{}
	var all func(i, j int) []parse
	all = func(i, j int) []parse {
		if v, ok := memo[[2]int{i, j}]; ok {
			return v
		}
		var out []parse
		add := func(p parse) {
			for _, q := range out {
				if q.pri == p.pri && rt.Equal(q.t, p.t) {
					return
				}
			}
			out = append(out, p)
		}
		if j == i+1 && toks[i].operand != nil {
			add(parse{toks[i].operand, 0})
		}
		if j-i >= 2 {
			if toks[i].operand == nil {
				if e, ok := m[key{toks[i].name, 0}]; ok {
					max := e.pri
					if e.spec == "fx" {
						max--
					}
					for _, p := range all(i+1, j) {
						if p.pri <= max {
							add(parse{rt.C(toks[i].name, p.t), e.pri})
						}
					}
				}
			}
			if toks[j-1].operand == nil {
				if e, ok := m[key{toks[j-1].name, 1}]; ok {
					max := e.pri
					if e.spec == "xf" {
						max--
					}
					for _, p := range all(i, j-1) {
						if p.pri <= max {
							add(parse{rt.C(toks[j-1].name, p.t), e.pri})
						}
					}
				}
			}
			for k := i + 1; k < j-1; k++ {
				if toks[k].operand != nil {
					continue
				}
				e, ok := m[key{toks[k].name, 2}]
				if !ok {
					continue
				}
				lmax, rmax := e.pri-1, e.pri-1
				if e.spec == "yfx" {
					lmax = e.pri
				}
				if e.spec == "xfy" {
					rmax = e.pri
				}
				for _, l := range all(i, k) {
					if l.pri > lmax {
						continue
					}
					for _, r := range all(k+1, j) {
						if r.pri <= rmax {
							add(parse{rt.C(toks[k].name, l.t, r.t), e.pri})
						}
					}
				}
			}
		}
		memo[[2]int{i, j}] = out
		return out
	}
	var ts []*rt.Term
	for _, p := range all(0, n) {
		dup := false
		for _, t := range ts {
			dup = dup || rt.Equal(t, p.t)
		}
		if !dup && p.pri <= 1200 {
			ts = append(ts, p.t)
		}
	}
	return ts
}

func mixProbe(i *sut.I, m map[key]ent, mix []string, st *stats) error {
	toks, ok := mixTokens(m, mix)
	if !ok {
		return nil
	}
	ds := derivations(m, toks)
	texts := make([]string, len(toks))
	for k, t := range toks {
		texts[k] = t.text
	}
	text := "(" + strings.Join(texts, " ") + ")"
	st.mix++
	if len(ds) > 1 {
		st.mixAmbiguous++
		return nil
	}
	res := i.Query("'='(X, "+text+") .", []string{"X"}, 2, 500000)
	if len(ds) == 0 {
		st.mixRefused++
		if res.Err == nil {
			return fmt.Errorf("the text %q was read as %v although no derivation exists under the table %v", text, res.Answers, relevant(m, toks))
		}
		return nil
	}
	st.mixUnique++
	if res.Err != nil || len(res.Answers) != 1 {
		return fmt.Errorf("the text %q was not read (%v); under the table %v it denotes %s", text, res.Err, relevant(m, toks), ds[0])
	}
	if !rt.Equal(res.Answers[0][0], ds[0]) {
		return fmt.Errorf("the text %q was read as %s; under the table %v its only derivation is %s", text, res.Answers[0][0], relevant(m, toks), ds[0])
	}
	i.Out.Reset()
	w := i.Query("'='(X, "+text+"), writeq(X) .", []string{"X"}, 2, 500000)
	if w.Err != nil {
		return fmt.Errorf("writeq of %s failed: %s", ds[0], w.Err)
	}
	txt := i.Out.String()
	rr := i.Query("'='(X, ("+txt+")) .", []string{"X"}, 2, 500000)
	if rr.Err != nil || len(rr.Answers) != 1 || !rt.Equal(rr.Answers[0][0], ds[0]) {
		return fmt.Errorf("writeq wrote %s as %q which reads back as %v (err %v) under the same table %v", ds[0], txt, rr.Answers, rr.Err, relevant(m, toks))
	}
	return nil
}

func relevant(m map[key]ent, toks []mtok) []string {
	var out []string
	seen := map[string]bool{}
	for _, t := range toks {
		n := t.name
		if t.operand != nil && t.operand.K == rt.Comp {
			n = t.operand.S
		}
		if n == "" || seen[n] {
			continue
		}
		seen[n] = true
		for c := 0; c < 3; c++ {
			if e, ok := m[key{n, c}]; ok {
				out = append(out, fmt.Sprintf("op(%d,%s,%s)", e.pri, e.spec, n))
			}
		}
	}
	return out
}
