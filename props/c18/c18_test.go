package c18

import (
	"fmt"
	"sort"
	"strings"
	"testing"

	"pgregory.net/rapid"

	"verif/internal/h"
	"verif/internal/rt"
	"verif/internal/sut"
)

// Step: op(P, T, N) or current_op(P, T, N) with arbitrary argument terms (rt.Var = unbound).
type Step struct {
	Kind string   `json:"kind"` // op | cur
	P    *rt.Term `json:"p"`
	T    *rt.Term `json:"t"`
	N    *rt.Term `json:"n"`
}

type Case struct {
	Steps []Step `json:"steps"`
	// Mix: after the history, this token sequence (operands a b c, @N = N(b,c,d), operator names) is read
	// under the resulting table (see mix.go)
	Mix []string `json:"mix,omitempty"`
}

func (s Step) String() string {
	f := "op"
	if s.Kind == "cur" {
		f = "current_op"
	}
	return rt.C(f, s.P, s.T, s.N).String()
}

func (c Case) String() string {
	ss := make([]string, len(c.Steps))
	for i, s := range c.Steps {
		ss[i] = s.String()
	}
	if c.Mix != nil {
		return strings.Join(ss, ", ") + "; then read: " + strings.Join(c.Mix, " ")
	}
	return strings.Join(ss, ", ")
}

type key struct {
	name  string
	class int // 0 prefix, 1 postfix, 2 infix
}
type ent struct {
	pri  int64
	spec string
}

var specClass = map[string]int{"fx": 0, "fy": 0, "xf": 1, "yf": 1, "xfx": 2, "xfy": 2, "yfx": 2}

// initial is the ISO operator table (13211-1 table 7 plus Cor.2), written out independently of bootstrap.pl.
func initial() map[key]ent {
	m := map[key]ent{}
	add := func(p int64, s string, names ...string) {
		for _, n := range names {
			m[key{n, specClass[s]}] = ent{p, s}
		}
	}
	add(1200, "xfx", ":-", "-->")
	add(1200, "fx", ":-", "?-")
	add(1105, "xfy", "|")
	add(1100, "xfy", ";")
	add(1050, "xfy", "->")
	add(1000, "xfy", ",")
	add(900, "fy", "\\+")
	add(700, "xfx", "=", "\\=", "==", "\\==", "@<", "@=<", "@>", "@>=", "=..", "is", "=:=", "=\\=", "<", "=<", ">", ">=")
	add(600, "xfy", ":")
	add(500, "yfx", "+", "-", "/\\", "\\/")
	add(400, "yfx", "*", "/", "//", "div", "rem", "mod", "<<", ">>")
	add(200, "xfx", "**")
	add(200, "xfy", "^")
	add(200, "fy", "+", "-", "\\")
	return m
}

func tuples(m map[key]ent) []string {
	var out []string
	for k, e := range m {
		out = append(out, fmt.Sprintf("op(%d,%s,%s)", e.pri, e.spec, k.name))
	}
	sort.Strings(out)
	return out
}

// names returns the names of an op/3 third argument: (names, ok). ok=false: the argument is invalid as a whole.
func opNames(n *rt.Term) ([]string, bool) {
	switch n.K {
	case rt.Atom:
		if n.S == "[]" {
			// '[]' as a single name is the empty list of names in this system and an invalid operator per ISO:
			// either way nothing may change
			return nil, false
		}
		return []string{n.S}, true
	case rt.Comp:
		es, tail := n.Unlist()
		if !n.Is(".", 2) || !tail.IsAtom("[]") {
			return nil, false
		}
		var out []string
		for _, e := range es {
			if e.K != rt.Atom {
				return nil, false
			}
			out = append(out, e.S)
		}
		return out, true
	}
	return nil, false
}

type verdict int

const (
	accept verdict = iota
	reject
	either // ISO and implementations differ: any outcome, the model follows the real one
)

// decide says what op(P,T,N) must do on table m.
func decide(m map[key]ent, s Step) (verdict, []string) {
	if s.P.K != rt.Int || s.T.K != rt.Atom {
		return reject, nil
	}
	class, ok := specClass[s.T.S]
	if !ok || s.P.I < 0 || s.P.I > 1200 {
		return reject, nil
	}
	ns, ok := opNames(s.N)
	if !ok {
		if s.N.IsAtom("[]") {
			return either, nil
		}
		return reject, nil
	}
	v := accept
	for _, n := range ns {
		switch n {
		case ",":
			return reject, nil
		case "[]", "{}":
			return reject, nil
		case "|":
			if class != 2 || (s.P.I > 0 && s.P.I < 1001) {
				return reject, nil
			}
		}
		conflict := false
		if class == 2 {
			_, conflict = m[key{n, 1}]
		}
		if class == 1 {
			_, conflict = m[key{n, 2}]
		}
		if conflict {
			if s.P.I == 0 {
				v = either // removing a non-existent operator of the other class: not fixed by the property
			} else {
				return reject, nil
			}
		}
	}
	return v, ns
}

func apply(m map[key]ent, s Step, ns []string) {
	class := specClass[s.T.S]
	for _, n := range ns {
		k := key{n, class}
		if s.P.I == 0 {
			delete(m, k)
		} else {
			m[k] = ent{s.P.I, s.T.S}
		}
	}
}

func table(i *sut.I) ([]string, error) {
	res := i.Query("findall(op(P,T,N), current_op(P,T,N), L).", []string{"L"}, 1, 2_000_000)
	if res.Err != nil || len(res.Answers) != 1 {
		return nil, fmt.Errorf("enumerating current_op/3 failed: %v", res.Err)
	}
	es, _ := res.Answers[0][0].Unlist()
	var out []string
	for _, e := range es {
		if !e.Is("op", 3) || e.A[0].K != rt.Int || e.A[1].K != rt.Atom || e.A[2].K != rt.Atom {
			return nil, fmt.Errorf("current_op/3 produced %s", e)
		}
		out = append(out, fmt.Sprintf("op(%d,%s,%s)", e.A[0].I, e.A[1].S, e.A[2].S))
	}
	sort.Strings(out)
	return out, nil
}

func eqStrings(a, b []string) bool {
	if len(a) != len(b) {
		return false
	}
	for i := range a {
		if a[i] != b[i] {
			return false
		}
	}
	return true
}

func diffStrings(real, model []string) string {
	in := func(x string, l []string) bool {
		for _, y := range l {
			if x == y {
				return true
			}
		}
		return false
	}
	var ds []string
	for _, x := range real {
		if !in(x, model) {
			ds = append(ds, "real has "+x)
		}
	}
	for _, x := range model {
		if !in(x, real) {
			ds = append(ds, "real lacks "+x)
		}
	}
	if len(ds) == 0 {
		ds = append(ds, fmt.Sprintf("duplicates: real %d entries, model %d", len(real), len(model)))
	}
	return strings.Join(ds, "; ")
}

func argText(t *rt.Term, name string) string {
	if t.K == rt.Var {
		return name
	}
	return quoteAll(t)
}

// quoteAll renders with every atom quoted (operator atoms are then plain operands).
func quoteAll(t *rt.Term) string {
	switch t.K {
	case rt.Atom:
		if t.S == "[]" {
			return "[]"
		}
		return "('" + strings.NewReplacer("\\", "\\\\", "'", "\\'").Replace(t.S) + "')" // bracketed: an operator atom as an operand
	case rt.Comp:
		if t.Is(".", 2) {
			es, tail := t.Unlist()
			ss := make([]string, len(es))
			for i, e := range es {
				ss[i] = quoteAll(e)
			}
			out := "[" + strings.Join(ss, ",")
			if !tail.IsAtom("[]") {
				out += "|" + quoteAll(tail)
			}
			return out + "]"
		}
	case rt.Var:
		return fmt.Sprintf("_G%d", t.I)
	}
	return t.String()
}

type stats struct {
	accepted, rejected, removals, lists      int
	probes                                   int
	mix, mixUnique, mixRefused, mixAmbiguous int
}

func check(c Case) (st stats, err error) {
	i := sut.New()
	m := initial()
	tb, e := table(i)
	if e != nil {
		return st, e
	}
	if !eqStrings(tb, tuples(m)) {
		return st, fmt.Errorf("the initial operator table differs from the ISO table: %s", diffStrings(tb, tuples(m)))
	}
	for k, s := range c.Steps {
		switch s.Kind {
		case "op":
			v, ns := decide(m, s)
			q := "op(" + argText(s.P, "P") + ", " + argText(s.T, "T") + ", " + argText(s.N, "N") + ")."
			res := i.Query(q, []string{}, 2, 500000)
			succeeded := res.Err == nil && len(res.Answers) == 1
			if res.Err != nil && res.Err.Kind != "ball" {
				return st, fmt.Errorf("step %d %s: %s", k+1, s, res.Err)
			}
			switch v {
			case accept:
				if !succeeded {
					return st, fmt.Errorf("step %d %s is a valid definition but did not succeed: %v (%d answers)", k+1, s, res.Err, len(res.Answers))
				}
				apply(m, s, ns)
				st.accepted++
				if s.P.I == 0 {
					st.removals++
				}
				if s.N.K == rt.Comp {
					st.lists++
				}
			case reject:
				if res.Err == nil {
					return st, fmt.Errorf("step %d %s must raise an error but %s", k+1, s, map[bool]string{true: "succeeded", false: "failed"}[succeeded])
				}
				st.rejected++
				if s.N.K == rt.Comp {
					st.lists++
				}
			case either:
				if succeeded && ns != nil {
					apply(m, s, ns)
				}
			}
			tb, e := table(i)
			if e != nil {
				return st, e
			}
			if !eqStrings(tb, tuples(m)) {
				what := "after the accepted"
				if v == reject {
					what = "after the rejected (it must change nothing)"
				}
				return st, fmt.Errorf("step %d: %s %s the table differs from the model: %s", k+1, what, s, diffStrings(tb, tuples(m)))
			}
			if v == accept && len(ns) > 0 {
				if err := probe(i, m, ns[len(ns)-1], &st); err != nil {
					return st, fmt.Errorf("step %d after %s: %v", k+1, s, err)
				}
			}
		case "cur":
			inDomain := (s.P.K == rt.Var || s.P.K == rt.Int && s.P.I >= 0 && s.P.I <= 1200) &&
				(s.T.K == rt.Var || s.T.K == rt.Atom && specClass[s.T.S] >= 0 && isSpec(s.T.S)) &&
				(s.N.K == rt.Var || s.N.K == rt.Atom)
			// (the harness's own queries use no operator but ',': every other operator may have been redefined)
			q := "findall(op(P,T,N), (" + bind("P", s.P) + bind("T", s.T) + bind("N", s.N) + "current_op(P,T,N)), L)."
			res := i.Query(q, []string{"L"}, 1, 2_000_000)
			if res.Err != nil && res.Err.Kind != "ball" {
				return st, fmt.Errorf("step %d %s: %s", k+1, s, res.Err)
			}
			if !inDomain {
				if res.Err == nil {
					if es, _ := res.Answers[0][0].Unlist(); len(es) > 0 {
						return st, fmt.Errorf("step %d %s (argument outside its domain) has %d answers", k+1, s, len(es))
					}
				}
				continue
			}
			if res.Err != nil {
				return st, fmt.Errorf("step %d %s raised %s", k+1, s, res.Err)
			}
			es, _ := res.Answers[0][0].Unlist()
			var got, want []string
			for _, e := range es {
				got = append(got, fmt.Sprintf("op(%d,%s,%s)", e.A[0].I, e.A[1].S, e.A[2].S))
			}
			for kk, e := range m {
				if (s.P.K == rt.Var || s.P.I == e.pri) && (s.T.K == rt.Var || s.T.S == e.spec) && (s.N.K == rt.Var || s.N.S == kk.name) {
					want = append(want, fmt.Sprintf("op(%d,%s,%s)", e.pri, e.spec, kk.name))
				}
			}
			sort.Strings(got)
			sort.Strings(want)
			if !eqStrings(got, want) {
				return st, fmt.Errorf("step %d %s: %s", k+1, s, diffStrings(got, want))
			}
		}
	}
	if c.Mix != nil {
		if err := mixProbe(i, m, c.Mix, &st); err != nil {
			return st, fmt.Errorf("after the history: %v", err)
		}
	}
	return st, nil
}

func isSpec(s string) bool { _, ok := specClass[s]; return ok }

func bind(v string, t *rt.Term) string {
	if t.K == rt.Var {
		return ""
	}
	return "'='(" + v + ", " + quoteAll(t) + "), "
}

// probe: reading and writing use the table - for a name with exactly one definition, the text
// "a N b N c" / "N a" / "a N" parses (or is a syntax error) as the entry says, and writeq of the
// resulting term reads back as the same term.
func probe(i *sut.I, m map[key]ent, name string, st *stats) error {
	if !plainName(name) {
		return nil
	}
	var defs []ent
	var classes []int
	for c := 0; c < 3; c++ {
		if e, ok := m[key{name, c}]; ok {
			defs = append(defs, e)
			classes = append(classes, c)
		}
	}
	if len(defs) > 1 {
		return nil
	}
	a, b, cc := rt.A("a"), rt.A("b"), rt.A("c")
	type pr struct {
		text string
		want *rt.Term // nil: syntax error expected
	}
	var ps []pr
	if len(defs) == 0 {
		ps = []pr{{"a " + name + " b", nil}}
	} else {
		e := defs[0]
		switch e.spec {
		case "xfx":
			ps = []pr{{"a " + name + " b", rt.C(name, a, b)}, {"a " + name + " b " + name + " c", nil}}
		case "xfy":
			ps = []pr{{"a " + name + " b " + name + " c", rt.C(name, a, rt.C(name, b, cc))}}
		case "yfx":
			ps = []pr{{"a " + name + " b " + name + " c", rt.C(name, rt.C(name, a, b), cc)}}
		case "fy":
			ps = []pr{{name + " " + name + " a", rt.C(name, rt.C(name, a))}}
		case "fx":
			ps = []pr{{name + " a", rt.C(name, a)}, {name + " " + name + " a", nil}}
		case "yf":
			ps = []pr{{"a " + name + " " + name, rt.C(name, rt.C(name, a))}}
		case "xf":
			ps = []pr{{"a " + name, rt.C(name, a)}, {"a " + name + " " + name, nil}}
		}
	}
	for k := range ps { // the probe text is an argument of '='/2 in functional notation: bracketed
		ps[k].text = "(" + ps[k].text + ")"
	}
	for _, p := range ps {
		st.probes++
		res := i.Query("'='(X, "+p.text+") .", []string{"X"}, 2, 500000)
		if p.want == nil {
			if res.Err == nil {
				return fmt.Errorf("the text %q was read as %v although the table (%v) makes it a syntax error", p.text, res.Answers, defs)
			}
			continue
		}
		if res.Err != nil || len(res.Answers) != 1 {
			return fmt.Errorf("the text %q was not read (%v) although the table defines %s as %v", p.text, res.Err, name, defs)
		}
		if !rt.Equal(res.Answers[0][0], p.want) {
			return fmt.Errorf("the text %q was read as %s, the table (%v) prescribes %s", p.text, res.Answers[0][0], defs, p.want)
		}
		// writeq round trip
		i.Out.Reset()
		w := i.Query("'='(X, "+p.text+"), writeq(X) .", []string{"X"}, 2, 500000)
		if w.Err != nil {
			return fmt.Errorf("writeq of %s failed: %s", p.want, w.Err)
		}
		txt := i.Out.String()
		rr := i.Query("'='(X, ("+txt+")) .", []string{"X"}, 2, 500000)
		if rr.Err != nil || len(rr.Answers) != 1 || !rt.Equal(rr.Answers[0][0], p.want) {
			return fmt.Errorf("writeq wrote %s as %q which reads back as %v (err %v) under the same table", p.want, txt, rr.Answers, rr.Err)
		}
	}
	return nil
}

func plainName(s string) bool {
	if s == "" {
		return false
	}
	alnum := s[0] >= 'a' && s[0] <= 'z'
	for _, r := range s {
		if !(r >= 'a' && r <= 'z' || r >= '0' && r <= '9' || r == '_') {
			alnum = false
		}
	}
	if alnum {
		return true
	}
	for _, r := range s {
		if !strings.ContainsRune("#$&*+-/:<=>?@^~\\", r) {
			return false
		}
	}
	return !strings.HasPrefix(s, "/*")
}

func init() { h.Reg("c18", func(c Case) error { _, err := check(c); return err }) }

// ---- generator ---------------------------------------------------------------------------------------------

var namePool = []string{"foo", "bar", "zz", "+", "-", "=", "mod", "is", ":-", "~", "**", "<>", "===", "\\+", ",", "|", "[]", "{}", "a b", "Up"}
var specs = []string{"fx", "fy", "xf", "yf", "xfx", "xfy", "yfx"}
var pris = []int64{0, 1, 200, 400, 699, 700, 701, 999, 1000, 1001, 1105, 1200}

func u(t *rapid.T, n int, l string) int { return int(rapid.Uint64().Draw(t, l) % uint64(n)) }

func genStep() *rapid.Generator[Step] {
	return rapid.Custom(func(t *rapid.T) Step {
		s := Step{Kind: "op"}
		if u(t, 5, "cur") == 0 {
			s.Kind = "cur"
		}
		// priority
		switch k := u(t, 20, "pk"); {
		case k < 15:
			s.P = rt.I(pris[u(t, len(pris), "p")])
		case k < 16:
			s.P = rt.I([]int64{1201, -1, 5000}[u(t, 3, "pout")])
		case k < 17:
			s.P = rt.A("foo")
		case k < 18:
			s.P = rt.F(200)
		default:
			s.P = rt.V(1)
		}
		// specifier
		switch k := u(t, 20, "tk"); {
		case k < 16:
			s.T = rt.A(specs[u(t, len(specs), "t")])
		case k < 17:
			s.T = rt.A([]string{"xxx", "yfy", "fxx"}[u(t, 3, "tbad")])
		case k < 18:
			s.T = rt.I(1)
		default:
			s.T = rt.V(2)
		}
		// names
		name := func() *rt.Term { return rt.A(namePool[u(t, len(namePool), "name")]) }
		switch k := u(t, 20, "nk"); {
		case k < 11 || s.Kind == "cur" && k < 17:
			s.N = name()
		case k < 15:
			n := 1 + u(t, 3, "nlist")
			es := make([]*rt.Term, n)
			for i := range es {
				es[i] = name()
			}
			if u(t, 3, "invalidmember") == 0 {
				es[u(t, n, "where")] = []*rt.Term{rt.I(1), rt.V(9), rt.A(","), rt.A("[]"), rt.C("f", rt.A("a"))}[u(t, 5, "bad")]
			}
			s.N = rt.List(es, nil)
		case k < 16:
			s.N = rt.List([]*rt.Term{name()}, rt.V(8)) // partial list
		case k < 17:
			s.N = rt.List([]*rt.Term{name()}, rt.A("bar")) // improper list
		case k < 18:
			s.N = rt.I(1)
		default:
			s.N = rt.V(3)
		}
		return s
	})
}

var mixNames = []string{"foo", "bar", "zz", "~", "<>", "===", "mod", "=", "+", "-", "**", "is", "\\+", ":-", "*", "<", "^", "rem", "-->", "?-", "\\", "dynamic"}

func genCase() *rapid.Generator[Case] {
	return rapid.Custom(func(t *rapid.T) Case {
		if u(t, 2, "mixcase") == 0 {
			return genMix(t)
		}
		return Case{Steps: rapid.SliceOfN(genStep(), 1, 25).Draw(t, "steps")}
	})
}

// genMix: 0-4 valid definitions over a few names, then a token sequence built from the resulting table:
// [prefix]* operand [postfix]* (infix [prefix]* operand [postfix]*)*, operators drawn by class (now and then
// from the wrong class), operands a/b/c or an operator name in functional notation.
func genMix(t *rapid.T) Case {
	var c Case
	m := initial()
	for k, n := 0, u(t, 5, "ndefs"); k < n; k++ {
		s := Step{Kind: "op", P: rt.I(pris[u(t, len(pris), "p")]), T: rt.A(specs[u(t, len(specs), "t")]), N: rt.A(mixNames[u(t, len(mixNames), "n")])}
		c.Steps = append(c.Steps, s)
		if v, ns := decide(m, s); v == accept {
			apply(m, s, ns)
		}
	}
	byClass := [3][]string{}
	var any []string
	for _, n := range mixNames {
		cl, cnt := -1, 0
		for k := 0; k < 3; k++ {
			if _, ok := m[key{n, k}]; ok {
				cl = k
				cnt++
			}
		}
		if cnt == 1 {
			byClass[cl] = append(byClass[cl], n)
			any = append(any, n)
		}
	}
	pick := func(class int, l string) (string, bool) {
		pool := byClass[class]
		if u(t, 12, "wrongclass") == 0 {
			pool = any
		}
		if len(pool) == 0 {
			return "", false
		}
		return pool[u(t, len(pool), l)], true
	}
	operand := func() {
		for u(t, 3, "pre") == 0 {
			if n, ok := pick(0, "prefix"); ok {
				c.Mix = append(c.Mix, n)
			} else {
				break
			}
		}
		if len(any) > 0 && u(t, 6, "functional") == 0 {
			c.Mix = append(c.Mix, "@"+any[u(t, len(any), "fn")])
		} else {
			c.Mix = append(c.Mix, []string{"a", "b", "c"}[u(t, 3, "operand")])
		}
		for u(t, 4, "post") == 0 {
			if n, ok := pick(1, "postfix"); ok {
				c.Mix = append(c.Mix, n)
			} else {
				break
			}
		}
	}
	operand()
	for k, n := 0, u(t, 3, "ninfix"); k < n; k++ {
		if op, ok := pick(2, "infix"); ok {
			c.Mix = append(c.Mix, op)
			operand()
		}
	}
	return c
}

func TestProp(t *testing.T) {
	r := h.Start(t, "C18")
	defer r.Finish(t)
	r.Rule("rapid-generated histories of 1-25 steps: op(P, T, N) with P in range (incl. the 699/700/701, 999/1000/1001, 1200 boundaries), 0, out of range, non-integer, unbound; T one of the seven specifiers, a non-specifier atom, a non-atom, unbound; N a single name from a pool (plain names, ISO operators, graphic and quoted names, ',', '|', '[]', '{}'), a list of names (duplicates, one invalid member at any position), a partial list, an improper list, a non-atom, unbound; and current_op/3 in every instantiation pattern with in- and out-of-domain arguments. Oracle: a model table (name, class) -> (priority, specifier) initialised from the ISO table written out independently (the first step compares it with current_op/3); transition rules as the property lists them. After every step the complete enumeration of current_op/3 equals the model; a step the model rejects must raise an error (any applicable ISO error) and change nothing; each current_op/3 pattern returns exactly the matching subset (no answers outside the domain). After an accepted definition of a plain name with a single definition, reading and writing use the table: 'a N b N c' / 'N N a' / 'a N N' parse or are syntax errors and associate as the entry says, and writeq of the term reads back. Half of the cases are instead 0-4 valid definitions followed by a mixed expression - [prefix]* operand [postfix]* (infix ...)* over names of the resulting table that have one operator class, operands a/b/c or an operator name in functional notation N(b,c,d): all derivations ISO 6.3.4 allows under the model table are enumerated; none: the text must be refused; exactly one: it must be read as that term and writeq must read back; several: nothing asserted (counted). Non-trivial: a history with a rejected call after >= 2 accepted ones, or a removal, or a list argument; or a mixed expression of >= 4 tokens with at most one derivation. Distinct by history.",
		"the model's initial table is the ISO table; where ISO leaves the outcome open (removing a non-existent operator of the conflicting class, '[]' as the names argument) either outcome is accepted")
	r.Regress(t)
	if r.Failed() {
		return
	}
	r.Rapid(t, "histories", r.Pick(20000, 400000), func(t *rapid.T) {
		c := genCase().Draw(t, "case")
		st, err := check(c)
		r.Label("sampled")
		r.Eval(len(c.Steps))
		r.LabelN("accepted_definitions", st.accepted)
		r.LabelN("rejected_calls", st.rejected)
		r.LabelN("read_write_probes", st.probes)
		r.LabelN("mixed_expressions", st.mix)
		r.LabelN("mixed_expressions:one_derivation", st.mixUnique)
		r.LabelN("mixed_expressions:no_derivation", st.mixRefused)
		r.LabelN("mixed_expressions:ambiguous_not_asserted", st.mixAmbiguous)
		if (st.rejected > 0 && st.accepted >= 2) || st.removals > 0 || st.lists > 0 || (st.mixUnique+st.mixRefused > 0 && len(c.Mix) >= 4) {
			r.NonTrivial(h.Hash(c), "c18", func() any { return c.String() })
		}
		if err != nil {
			r.Fail(t, "c18", c, err)
		}
	})
}

func TestReplay(t *testing.T) { h.Replay(t, "C18") }
func TestKnown(t *testing.T)  { h.KnownRepro(t, "C18") }
