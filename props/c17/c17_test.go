package c17

import (
	"fmt"
	"sort"
	"strings"
	"testing"

	"pgregory.net/rapid"

	"verif/internal/diff"
	"verif/internal/gen"
	"verif/internal/h"
	"verif/internal/ref"
	"verif/internal/rt"
	"verif/internal/sut"
)

// Case: grammar rules (H --> B terms; string terminals are '$chars'(List) nodes), the start
// non-terminal with its arity, and a body given directly to phrase/2,3.
type Case struct {
	Rules  []*rt.Term `json:"rules"`
	Start  string     `json:"start"`
	Arity  int        `json:"arity"`
	Direct *rt.Term   `json:"direct"`
}

type nt struct {
	name  string
	arity int
}

type gg struct {
	t     *rapid.T
	nts   []nt
	nvars int
	flags map[string]bool
}

func (x *gg) n(lo, hi int, l string) int {
	if hi <= lo {
		return lo
	}
	return lo + int(rapid.Uint64().Draw(x.t, l)%uint64(hi-lo+1))
}
func (x *gg) p(pc int, l string) bool { return int(rapid.Uint64().Draw(x.t, l)%100) < pc }
func (x *gg) v() *rt.Term {
	if x.nvars == 0 || (x.nvars < 4 && x.p(40, "nv")) {
		x.nvars++
		return rt.V(int64(x.nvars - 1))
	}
	return rt.V(int64(x.n(0, x.nvars-1, "v")))
}
func (x *gg) term() *rt.Term {
	if x.p(10, "listtoken") { // a token that is itself a list ([] as a token is not the end of the terminal list)
		x.flags["list_token"] = true
		return listTokens[x.n(0, len(listTokens)-1, "lt")]
	}
	return rt.A([]string{"a", "b", "c"}[x.n(0, 2, "t")])
}

var listTokens = []*rt.Term{rt.A("[]"), rt.A("[]"), rt.List([]*rt.Term{rt.A("a")}, nil), rt.List([]*rt.Term{rt.A("[]")}, nil)}

func (x *gg) arg() *rt.Term {
	switch k := x.n(0, 9, "arg"); {
	case k < 5:
		return x.v()
	case k < 8:
		return x.term()
	default:
		return rt.C("f", x.v())
	}
}

func (x *gg) terminals() *rt.Term {
	n := x.n(0, 2, "nterm")
	es := make([]*rt.Term, n)
	for i := range es {
		if x.p(15, "varterminal") {
			es[i] = x.v()
		} else {
			es[i] = x.term()
		}
	}
	l := rt.List(es, nil)
	if n > 0 && x.p(20, "string") {
		ground := true
		for _, e := range es {
			ground = ground && e.K == rt.Atom && len(e.S) == 1
		}
		if ground {
			x.flags["string"] = true
			return rt.C("$chars", l)
		}
	}
	return l
}

func (x *gg) callNT(rank int, consumed bool) *rt.Term {
	if rank < 0 && x.p(20, "q5") { // (direct bodies only)
		v := x.v()
		return rt.C("q5", x.term(), v, v, x.arg(), x.term())
	}
	// a rule of rank i may call itself or lower ranks only after it has consumed a terminal
	lo := rank + 1
	if consumed {
		lo = 0
	}
	if lo >= len(x.nts) {
		return x.terminals()
	}
	s := x.nts[x.n(lo, len(x.nts)-1, "nt")]
	args := make([]*rt.Term, s.arity)
	for i := range args {
		args[i] = x.arg()
	}
	return rt.C(s.name, args...)
}

func consumes(t *rt.Term) bool {
	if t.Is("$chars", 1) {
		return true
	}
	es, tail := t.Unlist()
	return len(es) > 0 && tail.IsAtom("[]")
}

// seq builds a sequence of items; top says cuts may be direct members.
func (x *gg) seq(rank, depth int, consumed, top bool) *rt.Term {
	n := x.n(1, 3, "seqlen")
	var items []*rt.Term
	for i := 0; i < n; i++ {
		var it *rt.Term
		if top && x.p(12, "cut") {
			it = rt.A("!")
			x.flags["cut"] = true
		} else {
			it = x.item(rank, depth, consumed)
		}
		if consumes(it) {
			consumed = true
		}
		items = append(items, it)
	}
	t := items[len(items)-1]
	for i := len(items) - 2; i >= 0; i-- {
		t = rt.C(",", items[i], t)
	}
	return t
}

func (x *gg) item(rank, depth int, consumed bool) *rt.Term {
	k := x.n(0, 19, "item")
	if depth <= 0 && k >= 9 {
		k = x.n(0, 8, "item0")
	}
	switch {
	case k < 5:
		return x.terminals()
	case k < 9:
		return x.callNT(rank, consumed)
	case k < 11:
		x.flags["alt"] = true
		op := ";"
		if x.p(40, "bar") {
			op = "|"
		}
		left := x.seq(rank, depth-1, consumed, false)
		if left.Is("->", 2) && op == "|" { // whether (If -> Then | Else) is an if-then-else is not fixed by the property
			op = ";"
		}
		return rt.C(op, left, x.seq(rank, depth-1, consumed, false))
	case k < 13:
		x.flags["curly"] = true
		v := x.v()
		switch x.n(0, 3, "curly") {
		case 0:
			return rt.C("{}", rt.C("=", v, x.term()))
		case 1:
			return rt.C("{}", rt.C("\\=", v, x.term()))
		case 2:
			return rt.C("{}", rt.C(",", rt.C("=", v, x.term()), rt.A("true")))
		default:
			return rt.C("{}", rt.A("fail"))
		}
	case k < 15:
		x.flags["neg"] = true
		return rt.C("\\+", x.seq(rank, depth-1, consumed, false))
	case k < 17:
		x.flags["call"] = true
		lo := rank + 1
		if consumed {
			lo = 0
		}
		if lo >= len(x.nts) {
			return rt.C("call", rt.A("tz")) // tz//0 is a helper non-terminal: tz --> [c].
		}
		s := x.nts[x.n(lo, len(x.nts)-1, "cnt")]
		args := make([]*rt.Term, s.arity)
		for i := range args {
			args[i] = x.arg()
		}
		k := x.n(0, s.arity, "split")
		return rt.C("call", append([]*rt.Term{rt.C(s.name, args[:k]...)}, args[k:]...)...)
	case k < 19:
		x.flags["ite"] = true
		if x.p(30, "ifthen") {
			return rt.C("->", x.seq(rank, depth-1, consumed, false), x.seq(rank, depth-1, consumed, false))
		}
		return rt.C(";", rt.C("->", x.seq(rank, depth-1, consumed, false), x.seq(rank, depth-1, consumed, false)), x.seq(rank, depth-1, consumed, false))
	default:
		return rt.A("[]")
	}
}

func (x *gg) body(rank int, pushback bool) *rt.Term {
	// top-level: a sequence, or an alternation of sequences (cuts allowed as direct members of either).
	// In a push-back rule the translated alternation is the left conjunct of the clause body, i.e. not a
	// top-level disjunct of the clause: a cut there is outside the placements for which the engine
	// provides clause-level cut (C03's scope), so none is generated.
	if x.p(25, "topalt") {
		x.flags["alt"] = true
		left, right := x.seq(rank, 2, false, !pushback), x.seq(rank, 2, false, !pushback)
		if left.Is("->", 2) { // (If -> Then ; Else) is if-then-else: its branches must not hold a bare cut
			left = rt.C(",", rt.A("[]"), left)
		}
		return rt.C(";", left, right)
	}
	return x.seq(rank, 2, false, true)
}

func genCase() *rapid.Generator[Case] {
	return rapid.Custom(func(t *rapid.T) Case {
		x := &gg{t: t, flags: map[string]bool{}}
		names := []string{"s", "t", "u", "v"}
		nn := x.n(1, 4, "nnts")
		for i := 0; i < nn; i++ {
			x.nts = append(x.nts, nt{names[i], x.n(0, 2, "arity")})
		}
		var c Case
		for rank, s := range x.nts {
			for j, nr := 0, x.n(1, 3, "nrules"); j < nr; j++ {
				x.nvars = 0
				args := make([]*rt.Term, s.arity)
				for i := range args {
					args[i] = x.arg()
				}
				head := rt.C(s.name, args...)
				pushback := false
				if x.p(12, "pushback") {
					pushback = true
					x.flags["pushback"] = true
					pb := rt.List([]*rt.Term{x.term()}, nil)
					if x.p(30, "pb2") {
						pb = rt.List([]*rt.Term{x.term(), x.term()}, nil)
					}
					head = rt.C(",", head, pb)
				}
				c.Rules = append(c.Rules, rt.C("-->", head, x.body(rank, pushback)))
			}
		}
		c.Rules = append(c.Rules, rt.C("-->", rt.A("tz"), rt.ListOf(rt.A("c"))))
		// q5//5 is a helper non-terminal with many arguments: q5(A, _, _, _, E) --> [A], [E].
		c.Rules = append(c.Rules, rt.C("-->", rt.C("q5", rt.V(0), rt.V(1), rt.V(2), rt.V(3), rt.V(4)), rt.C(",", rt.ListOf(rt.V(0)), rt.ListOf(rt.V(4)))))
		c.Start, c.Arity = x.nts[0].name, x.nts[0].arity
		x.nvars = 0
		c.Direct = x.seq(-1, 2, true, false)
		return c
	})
}

// plain replaces '$chars'(L) by L (what the string denotes under double_quotes = chars).
func plain(t *rt.Term) *rt.Term {
	if t.K != rt.Comp {
		return t
	}
	if t.Is("$chars", 1) {
		return t.A[0]
	}
	args := make([]*rt.Term, len(t.A))
	for i, a := range t.A {
		args[i] = plain(a)
	}
	return rt.C(t.S, args...)
}

// text renders with strings as double-quoted literals.
func text(t *rt.Term, names map[int64]string) string {
	var strs []string
	var rec func(t *rt.Term) *rt.Term
	rec = func(t *rt.Term) *rt.Term {
		if t.K != rt.Comp {
			return t
		}
		if t.Is("$chars", 1) {
			es, _ := t.A[0].Unlist()
			s := ""
			for _, e := range es {
				s += e.S
			}
			strs = append(strs, s)
			return rt.A(fmt.Sprintf("zzstr%dzz", len(strs)-1))
		}
		args := make([]*rt.Term, len(t.A))
		for i, a := range t.A {
			args[i] = rec(a)
		}
		return rt.C(t.S, args...)
	}
	out := rec(t).Text(names)
	for i, s := range strs {
		out = strings.ReplaceAll(out, fmt.Sprintf("zzstr%dzz", i), "\""+s+"\"")
	}
	return out
}

func ruleText(r *rt.Term) string {
	ids := r.Vars(nil)
	return text(r, rt.VarNames(ids)) + "."
}

func (c Case) String() string {
	var b strings.Builder
	for _, r := range c.Rules {
		b.WriteString(ruleText(r) + "\n")
	}
	b.WriteString("start: " + fmt.Sprintf("%s//%d", c.Start, c.Arity) + "  direct body: " + text(c.Direct, rt.VarNames(c.Direct.Vars(nil))) + "\n")
	return b.String()
}

var inputs [][]*rt.Term

func init() {
	alpha := []*rt.Term{rt.A("a"), rt.A("b"), rt.A("c")}
	inputs = [][]*rt.Term{{}}
	prev := [][]*rt.Term{{}}
	for l := 1; l <= 4; l++ {
		var cur [][]*rt.Term
		for _, p := range prev {
			for _, a := range alpha {
				cur = append(cur, append(append([]*rt.Term{}, p...), a))
			}
		}
		inputs = append(inputs, cur...)
		prev = cur
	}
	// a few inputs holding tokens that are lists
	e, la, a := rt.A("[]"), rt.List([]*rt.Term{rt.A("a")}, nil), rt.A("a")
	listInputs = [][]*rt.Term{{e}, {la}, {e, a}, {a, e}, {e, e}, {la, e}, {a, la}, {rt.List([]*rt.Term{e}, nil)}, {a, e, a}}
}

var listInputs [][]*rt.Term

type probe struct {
	real *rt.Term // if set: what the real system is asked (same answer variables as q, further ones are auxiliary)
	q    *rt.Term
	kind string
	max  int
	seq  bool // compare as a sequence (generation mode prefix) instead of a multiset
}

// hasListToken: some rule mentions [] or a list inside a terminal list.
func (c Case) hasListToken() bool {
	var in func(t *rt.Term, inList bool) bool
	in = func(t *rt.Term, inList bool) bool {
		if t.Is(".", 2) {
			es, tail := t.Unlist()
			for _, e := range es {
				if e.IsAtom("[]") || e.Is(".", 2) {
					return true
				}
			}
			return in(tail, true)
		}
		for _, a := range t.A {
			if in(a, false) {
				return true
			}
		}
		return false
	}
	for _, r := range c.Rules {
		if in(r, false) {
			return true
		}
	}
	return c.Direct != nil && in(c.Direct, false)
}

// buildDirect rewrites a direct body so that it is put together at run time: every non-terminal call with
// arguments becomes a variable bound beforehand by G =.. [Name|Args] (equal calls share one variable, so the body
// holds one compound value at several places), every proper terminal list of >= 2 elements becomes [E1|T] with
// T bound beforehand. The body means the same: it is converted when phrase/3 is called.
func buildDirect(d *rt.Term) (pre []*rt.Term, out *rt.Term) {
	next := int64(70)
	shared := map[string]*rt.Term{}
	var rec func(t *rt.Term) *rt.Term
	rec = func(t *rt.Term) *rt.Term {
		switch {
		case t.K != rt.Comp:
			return t
		case t.Is(".", 2):
			es, tail := t.Unlist()
			if tail.IsAtom("[]") && len(es) >= 2 {
				v := rt.V(next)
				next++
				pre = append(pre, rt.C("=", v, rt.List(es[1:], nil)))
				return rt.List(es[:1], v)
			}
			return t
		case t.Is(",", 2) || t.Is(";", 2) || t.Is("|", 2) || t.Is("->", 2):
			return rt.C(t.S, rec(t.A[0]), rec(t.A[1]))
		case t.Is("\\+", 1):
			return rt.C(t.S, rec(t.A[0]))
		case t.Is("{}", 1) || t.S == "call":
			return t
		}
		k := t.String()
		if v, ok := shared[k]; ok {
			return v
		}
		v := rt.V(next)
		next++
		shared[k] = v
		pre = append(pre, rt.C("=..", v, rt.List(append([]*rt.Term{rt.A(t.S)}, t.A...), nil)))
		return v
	}
	out = rec(d)
	return pre, out
}

func (c Case) probes(maxLen int) []probe {
	args := make([]*rt.Term, c.Arity)
	for i := range args {
		args[i] = rt.V(int64(20 + i))
	}
	s := rt.C(c.Start, args...)
	var ps []probe
	all := inputs
	if c.hasListToken() {
		all = append(append([][]*rt.Term{}, inputs...), listInputs...)
	}
	for _, in := range all {
		if len(in) > maxLen {
			continue
		}
		l := rt.List(in, nil)
		ps = append(ps, probe{q: rt.C("phrase", s, l), kind: "recognise", max: 40})
		ps = append(ps, probe{q: rt.C("phrase", s, l, rt.V(30)), kind: "open_remainder", max: 40})
		for k := 1; k <= len(in); k++ { // bound, non-empty remainder
			ps = append(ps, probe{q: rt.C("phrase", s, l, rt.List(in[k:], nil)), kind: "bound_remainder", max: 40})
		}
		if len(in) <= 2 {
			ps = append(ps, probe{q: rt.C("phrase", plain(c.Direct), l, rt.V(30)), kind: "direct_body", max: 40})
			// the same body put together at run time: non-terminals built by =.. (equal ones are one term), terminal
			// lists completed by binding their tail beforehand; once alone and once twice in a row
			pre, built := buildDirect(plain(c.Direct))
			if len(pre) > 0 {
				d := plain(c.Direct)
				ps = append(ps, probe{q: rt.C("phrase", d, l, rt.V(30)), real: gen.Conj(append(pre, rt.C("phrase", built, l, rt.V(30)))), kind: "direct_body_built_at_run_time", max: 40})
				ps = append(ps, probe{q: rt.C("phrase", rt.C(",", d, d), l, rt.V(30)), real: gen.Conj(append(pre, rt.C("phrase", rt.C(",", built, built), l, rt.V(30)))), kind: "direct_body_built_at_run_time_twice", max: 40})
			}
		}
	}
	ps = append(ps, probe{q: rt.C("phrase", s, rt.V(31)), kind: "generate", max: 20, seq: true})
	ps = append(ps, probe{q: rt.C("phrase", s, rt.V(31), rt.V(30)), kind: "generate_open", max: 20, seq: true})
	return ps
}

func key(tuple []*rt.Term) string {
	ss := make([]string, len(tuple))
	for i, t := range rt.Canon(tuple) {
		ss[i] = t.String()
	}
	return strings.Join(ss, " | ")
}

type stats struct {
	probes, accepted, rejected int
	discards                   map[string]int
}

// load builds the three real interpreters' worth of state: path "exec" (text with -->) or "expand"
// (expand_term/2 + assertz).
func load(c Case, path string) (*sut.I, error) {
	i := sut.New()
	if e := i.Exec(":- set_prolog_flag(double_quotes, chars).\n", 100000); e != nil {
		return nil, fmt.Errorf("infrastructure: %s", e)
	}
	switch path {
	case "exec":
		var b strings.Builder
		for _, r := range c.Rules {
			b.WriteString(ruleText(r) + "\n")
		}
		if e := i.Exec(b.String(), 2_000_000); e != nil {
			return nil, fmt.Errorf("loading the grammar failed: %s\n%s", e, b.String())
		}
	default:
		for _, r := range c.Rules {
			ids := r.Vars(nil)
			q := "expand_term(" + text(r, rt.VarNames(ids)) + ", ZC), assertz(ZC)."
			res := i.Query(q, []string{}, 1, 500000)
			if res.Err != nil || len(res.Answers) != 1 {
				return nil, fmt.Errorf("expand_term + assertz of %s failed: %v", ruleText(r), res.Err)
			}
		}
	}
	return i, nil
}

func check(c Case, maxLen int) (st stats, err error) {
	st.discards = map[string]int{}
	exec, e := load(c, "exec")
	if e != nil {
		return st, e
	}
	expand, e := load(c, "expand")
	if e != nil {
		return st, e
	}
	for _, pr := range c.probes(maxLen) {
		m := ref.NewMachine(3000, 300000)
		for _, r := range c.Rules {
			if e := m.ConsultOne(plain(r), false); e != nil {
				st.discards["budget"]++
				continue
			}
		}
		ids := pr.q.Vars(nil)
		rr := m.Solve(pr.q, ids, pr.max)
		if d := rr.Discard(); d != "" {
			st.discards[d]++
			continue
		}
		if rr.Truncated && !pr.seq {
			st.discards["too many answers"]++
			continue
		}
		names := make([]string, len(ids))
		nm := map[int64]string{}
		for j, id := range ids {
			names[j] = fmt.Sprintf("Q%d", id)
			nm[id] = names[j]
		}
		qt := pr.q.Text(nm) + "."
		if pr.real != nil {
			for _, id := range pr.real.Vars(nil) {
				if _, ok := nm[id]; !ok {
					nm[id] = fmt.Sprintf("Aux%d", id)
				}
			}
			qt = pr.real.Text(nm) + "."
		}
		for _, side := range []struct {
			name string
			i    *sut.I
		}{{"Exec", exec}, {"expand_term+assertz", expand}} {
			got := side.i.Query(qt, names, pr.max, rr.Stats.RealBudget())
			st.probes++
			if e := compare(rr, got, pr.seq); e != nil {
				return st, fmt.Errorf("%s [%s, loaded by %s]: %v", qt, pr.kind, side.name, e)
			}
		}
		if len(rr.Answers) > 0 {
			st.accepted++
		} else {
			st.rejected++
		}
	}
	return st, nil
}

func compare(want ref.Result, got sut.Result, seq bool) error {
	if want.Ball != nil {
		if got.Err == nil || got.Err.Kind != "ball" || !rt.Variant(want.Ball.MaskErrorContext(), got.Err.Ball.MaskErrorContext()) {
			return fmt.Errorf("expected error %s, real: %d answers, err %s", want.Ball.MaskErrorContext(), len(got.Answers), got.Err)
		}
	} else if got.Err != nil {
		return fmt.Errorf("real run ended with %s; the reference has %d answers and no error", got.Err, len(want.Answers))
	}
	if seq {
		if len(want.Answers) != len(got.Answers) {
			return fmt.Errorf("real has %d answers, the reference %d (first 20 compared)", len(got.Answers), len(want.Answers))
		}
		for k := range want.Answers {
			if !rt.VariantTuple(want.Answers[k], got.Answers[k]) {
				return fmt.Errorf("answer %d: real %s, reference %s", k+1, rt.Strings(got.Answers[k]), rt.Strings(want.Answers[k]))
			}
		}
		return nil
	}
	w, g := map[string]int{}, map[string]int{}
	for _, a := range want.Answers {
		w[key(a)]++
	}
	for _, a := range got.Answers {
		g[key(a)]++
	}
	var ds []string
	for k, n := range w {
		if g[k] != n {
			ds = append(ds, fmt.Sprintf("reference %d x [%s], real %d", n, k, g[k]))
		}
	}
	for k, n := range g {
		if w[k] == 0 {
			ds = append(ds, fmt.Sprintf("real %d x [%s], reference 0", n, k))
		}
	}
	sort.Strings(ds)
	if len(ds) > 0 {
		return fmt.Errorf("answers differ: %s", strings.Join(ds, "; "))
	}
	return nil
}

func init() {
	h.Reg("c17", func(c Case) error { _, err := check(c, 4); return err })
}

func TestProp(t *testing.T) {
	r := h.Start(t, "C17")
	defer r.Finish(t)
	r.Rule("rapid-generated grammars: 1-4 ranked non-terminals of arity 0-2 (a rule may call itself or a lower rank only after consuming a terminal, so no left recursion), 1-3 rules each, bodies at nesting depth <= 3 over terminal lists (incl. variables as terminals and tokens that are lists themselves: [], [a], [[]]), strings, non-terminals with arguments, sequence, alternation with ; and |, {}//1, \\+//1, !//0 (as a direct member of the body's top-level sequence or of a top-level alternative), call//N with closures, if-then-else and if-then, push-back heads. Each grammar is loaded by Exec of the --> text and by expand_term/2 + assertz/1; a generated body is also given directly to phrase/3. For every input list up to length 4 over {a,b,c} (121 lists, exhaustively; quick: up to length 3; 9 more inputs with list tokens when the grammar mentions one): phrase/2 (recognition), phrase/3 with an open remainder (all remainders), phrase/3 with every bound non-empty remainder that is a suffix of the input; plus generation mode (input unbound, first 20 answers, compared as a sequence). Oracle: the reference grammar interpreter (direct interpretation of the body on difference lists, no translation). Compared: the multiset of answers (argument bindings and remainder) and any error. Non-trivial: the grammar uses one of {\\+, !, ->, call//N, push-back, {}} and accepts at least one input and rejects at least one. Distinct by grammar.",
		"the reference grammar interpreter (internal/ref/dcg.go)",
		"! nested inside a non-top-level ;, | or -> of a grammar body and {!} are outside the property and not generated")
	if r.Shard() == 0 {
		if err := diff.OracleSelfTest(); err != nil {
			t.Fatalf("%v", err)
		}
		r.LabelN("oracle_self_test_examples", ref.NExamples())
	}
	r.Regress(t)
	if r.Failed() {
		return
	}
	maxLen := r.Pick(3, 4)
	r.Rapid(t, "grammars", r.Pick(1600, 12000), func(t *rapid.T) {
		c := genCase().Draw(t, "grammar")
		st, err := check(c, maxLen)
		r.Label("sampled_grammar")
		r.Eval(st.probes)
		for k, v := range st.discards {
			for i := 0; i < v; i++ {
				r.Discard(k)
			}
		}
		flags := map[string]bool{}
		var walk func(t *rt.Term)
		walk = func(t *rt.Term) {
			switch {
			case t.IsAtom("!"):
				flags["cut"] = true
			case t.Is("\\+", 1):
				flags["neg"] = true
			case t.Is("->", 2):
				flags["ite"] = true
			case t.K == rt.Comp && t.S == "call":
				flags["call"] = true
			case t.Is("{}", 1):
				flags["curly"] = true
			case t.Is("$chars", 1):
				flags["string"] = true
			case t.Is("|", 2):
				flags["bar"] = true
			}
			for _, a := range t.A {
				walk(a)
			}
		}
		for _, rule := range c.Rules {
			if rule.A[0].Is(",", 2) {
				flags["pushback"] = true
			}
			walk(rule.A[1])
		}
		if c.hasListToken() {
			flags["list_token"] = true
		}
		special := false
		for k := range flags {
			r.Label("uses:" + k)
			if k != "string" && k != "bar" && k != "list_token" {
				special = true
			}
		}
		if special && st.accepted > 0 && st.rejected > 0 {
			r.NonTrivial(h.Hash(c), "c17", func() any { return c.String() })
		}
		if err != nil {
			r.Fail(t, "c17", c, err)
		}
	})
}

func TestReplay(t *testing.T) { h.Replay(t, "C17") }
func TestKnown(t *testing.T)  { h.KnownRepro(t, "C17") }
