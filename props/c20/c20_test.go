package c20

import (
	"fmt"
	"io/fs"
	"os"
	"path/filepath"
	"strings"
	"testing"

	"pgregory.net/rapid"

	"verif/internal/h"
	"verif/internal/rt"
	"verif/internal/sut"
)

// Item of a program text.
type Item struct {
	Kind string `json:"kind"`           // clause | decl | out | init
	Pred string `json:"pred,omitempty"` // clause, decl, init
	ID   int    `json:"id,omitempty"`   // clause serial number / output tag
	Rule bool   `json:"rule,omitempty"` // p(X) :- X = ID.  instead of  p(ID).
	Alt  bool   `json:"alt,omitempty"`  // p(X) :- X = ID ; X = ID+altOffset.  (one clause of the text, two alternatives)
	Decl string `json:"decl,omitempty"` // dynamic | discontiguous | multifile
	Form int    `json:"form,omitempty"` // declaration form: p/1, [p/1], (p/1, p/1)
}

// Step: a load of a text (with the faults to inject first) or an assertz on a dynamic predicate.
type Step struct {
	Kind   string  `json:"kind"` // load | assertz
	Items  []Item  `json:"items,omitempty"`
	Faults []Fault `json:"faults,omitempty"`
	Pred   string  `json:"pred,omitempty"`
	ID     int     `json:"id,omitempty"`
}

// Fault: one malformed item inserted before item Pos (Pos == len(items): at the end).
type Fault struct {
	Pos  int    `json:"pos"`
	Kind string `json:"kind"`
	Arg  string `json:"arg,omitempty"`
}

type Case struct {
	Via   string `json:"via"` // exec | consult | consultfs (consult through a host file system whose files return short reads)
	Steps []Step `json:"steps"`
}

var preds = []string{"p1", "p2", "p3", "p4", "w3"}

const altOffset = 500000

// w3 has arity 3 and structured head arguments; the others are unary. The clause's number is the
// argument X of head(p, "X").
func arity(p string) int {
	if strings.HasSuffix(p, "w3") {
		return 3
	}
	return 1
}

func head(p, arg string) string {
	if arity(p) == 3 {
		return fmt.Sprintf("%s(f(%s), g(_), h(_))", p, arg)
	}
	return fmt.Sprintf("%s(%s)", p, arg)
}

func (it Item) text() string {
	switch it.Kind {
	case "clause":
		if it.Alt {
			return fmt.Sprintf("%s :- X = %d ; X = %d.\n", head(it.Pred, "X"), it.ID, it.ID+altOffset)
		}
		if it.Rule {
			return fmt.Sprintf("%s :- X = %d.\n", head(it.Pred, "X"), it.ID)
		}
		return fmt.Sprintf("%s.\n", head(it.Pred, fmt.Sprint(it.ID)))
	case "decl":
		switch it.Form {
		case 0:
			return fmt.Sprintf(":- %s(%s/%d).\n", it.Decl, it.Pred, arity(it.Pred))
		case 1:
			return fmt.Sprintf(":- %s([%s/%d]).\n", it.Decl, it.Pred, arity(it.Pred))
		default:
			return fmt.Sprintf(":- %s((%s/%d, zz%s/%d)).\n", it.Decl, it.Pred, arity(it.Pred), it.Pred, arity(it.Pred))
		}
	case "out":
		return fmt.Sprintf(":- write(d%d).\n", it.ID)
	case "init":
		return fmt.Sprintf(":- initialization((findall(X, %s, L), write(i(L)))).\n", head(it.Pred, "X"))
	}
	return ""
}

var syntaxFaults = []string{"foo(.\n", "p1(1) p1(2).\n", ") .\n", "'unterminated\n", "p1(1\n", "\"open string\n", "/* open comment\n", "/* open * comment\n", "/*\n * boxed\n * comment\n", "/* nearly closed *", "/**", "% line comment, then /* open\n/* x", "X = [-\n", "foo :- .\n", "p1(1)).\n", "0'\n"}

// the last read-term of the text without its end token, followed by nothing but layout text
var endFaults = []string{"foo(1)", "foo(1)\n", "foo(1) % no end\n", "foo(1) /* no end */", "foo(1) :- true\n\n", "foo :- bar, baz"}

// directives that are fine by themselves, placed between two clauses of one predicate: the clauses are then not consecutive
// read-terms of the text (the repository's own wording of the discontiguity error)
var separators = []string{":- initialization(true).\n", ":- true.\n", ":- initialization(write(zz)).\n"}
var nonCallable = []string{"1.\n", "foo :- 1.\n", "foo :- bar, 2.\n", "3 :- true.\n", "1.5.\n"}
var badDirectives = []string{":- fail.\n", ":- throw(oops).\n", ":- undefined_directive_zz.\n", ":- X is foo + 1.\n"}

func (f Fault) text() string {
	switch f.Kind {
	case "syntax", "noncallable", "directive", "separated":
		return f.Arg
	case "discontiguous":
		return fmt.Sprintf("%s.\n", head(f.Arg, "999"))
	}
	return ""
}

func render(items []Item, f *Fault) string {
	var b strings.Builder
	for k, it := range items {
		if f != nil && f.Pos == k {
			b.WriteString(f.text())
		}
		b.WriteString(it.text())
	}
	if f != nil && f.Pos >= len(items) {
		b.WriteString(f.text())
	}
	return b.String()
}

func (c Case) String() string {
	var b strings.Builder
	fmt.Fprintf(&b, "via %s\n", c.Via)
	for k, s := range c.Steps {
		if s.Kind == "assertz" {
			fmt.Fprintf(&b, "step %d: assertz(%s)\n", k+1, head(s.Pred, fmt.Sprint(s.ID)))
			continue
		}
		fmt.Fprintf(&b, "step %d: load (after %d fault-injected variants %v):\n%s", k+1, len(s.Faults), s.Faults, render(s.Items, nil))
	}
	return b.String()
}

// chunkFS is a file system whose files hand out their content in short reads.
type chunkFS struct {
	fs.FS
	n int
}

type chunkFile struct {
	fs.File
	n int
}

func (c chunkFS) Open(name string) (fs.File, error) {
	f, err := c.FS.Open(name)
	if err != nil {
		return nil, err
	}
	return chunkFile{f, c.n}, nil
}

func (f chunkFile) Read(p []byte) (int, error) {
	if len(p) > f.n {
		p = p[:f.n]
	}
	return f.File.Read(p)
}

// ---- model -----------------------------------------------------------------------------------------------

type predModel struct {
	clauses   []int
	multifile bool
	dynamic   bool
}

type model map[string]*predModel

func (m model) listing(p string) string {
	pm, ok := m[p]
	if !ok {
		return "undefined"
	}
	return fmt.Sprint(pm.clauses)
}

// applyLoad applies a successful load; returns the expected output.
func (m model) applyLoad(items []Item) string {
	type info struct {
		clauses            []int
		multifile, dynamic bool
	}
	inText := map[string]*info{}
	var order []string
	get := func(p string) *info {
		if _, ok := inText[p]; !ok {
			inText[p] = &info{}
			order = append(order, p)
		}
		return inText[p]
	}
	out := ""
	var inits []string
	for _, it := range items {
		switch it.Kind {
		case "clause":
			i := get(it.Pred)
			i.clauses = append(i.clauses, it.ID)
			if it.Alt {
				i.clauses = append(i.clauses, it.ID+altOffset)
			}
		case "decl":
			names := []string{it.Pred}
			if it.Form == 2 {
				names = append(names, "zz"+it.Pred)
			}
			for _, n := range names {
				i := get(n)
				switch it.Decl {
				case "multifile":
					i.multifile = true
				case "dynamic":
					i.dynamic = true
				}
			}
		case "out":
			out += fmt.Sprintf("d%d", it.ID)
		case "init":
			inits = append(inits, it.Pred)
		}
	}
	for _, p := range order {
		i := inText[p]
		if ex, ok := m[p]; ok && ex.multifile && i.multifile {
			ex.clauses = append(ex.clauses, i.clauses...)
			continue
		}
		m[p] = &predModel{clauses: i.clauses, multifile: i.multifile, dynamic: i.dynamic}
	}
	for _, p := range inits {
		l := "[]"
		if pm, ok := m[p]; ok {
			l = strings.ReplaceAll(fmt.Sprint(pm.clauses), " ", ",")
		}
		out += "i(" + l + ")"
	}
	return out
}

func observe(i *sut.I, p string) (string, error) {
	res := i.Query(fmt.Sprintf("catch(findall(X, %s, L), error(E, _), L = err(E)).", head(p, "X")), []string{"L"}, 1, 500000)
	if res.Err != nil || len(res.Answers) != 1 {
		return "", fmt.Errorf("observing %s/1 failed: %v", p, res.Err)
	}
	l := res.Answers[0][0]
	if l.Is("err", 1) {
		if l.A[0].Is("existence_error", 2) {
			return "undefined", nil
		}
		return "error " + l.A[0].String(), nil
	}
	es, _ := l.Unlist()
	ids := make([]int, len(es))
	for k, e := range es {
		if e.K != rt.Int {
			return "", fmt.Errorf("%s/1 enumerates %s", p, l)
		}
		ids[k] = int(e.I)
	}
	return fmt.Sprint(ids), nil
}

func allNames() []string {
	out := append([]string{}, preds...)
	for _, p := range preds {
		out = append(out, "zz"+p)
	}
	return out
}

func compareAll(i *sut.I, m model, when string) error {
	for _, p := range allNames() {
		got, err := observe(i, p)
		if err != nil {
			return err
		}
		if want := m.listing(p); got != want {
			return fmt.Errorf("%s: %s/1 enumerates %s, expected %s", when, p, got, want)
		}
	}
	return nil
}

type stats struct {
	loads, failedLoads, okLoads int
	interleaved, overEarlier    bool
}

func check(c Case) (st stats, err error) {
	i := sut.New()
	m := model{}
	var dir string
	fileNo := 0
	if c.Via == "consult" || c.Via == "consultfs" {
		d, e := os.MkdirTemp("", "c20-")
		if e != nil {
			return st, fmt.Errorf("infrastructure: %v", e)
		}
		dir = d
		defer os.RemoveAll(dir)
	}
	load := func(text string) *sut.ErrInfo {
		st.loads++
		if c.Via != "consult" && c.Via != "consultfs" {
			return i.Exec(text, 5_000_000)
		}
		fn := filepath.Join(dir, fmt.Sprintf("f%d.pl", fileNo))
		if e := os.WriteFile(fn, []byte(text), 0o644); e != nil {
			return &sut.ErrInfo{Kind: "go", Msg: "infrastructure: " + e.Error()}
		}
		target := fn
		if c.Via == "consultfs" {
			// the host's file system: reads return at most 13 bytes at a time (any io.Reader may do so)
			i.P.FS = chunkFS{os.DirFS(dir), 13}
			target = fmt.Sprintf("f%d.pl", fileNo)
		}
		res := i.Query(fmt.Sprintf("consult('%s').", target), []string{}, 1, 5_000_000)
		if res.Err != nil {
			return res.Err
		}
		if len(res.Answers) != 1 {
			return &sut.ErrInfo{Kind: "go", Msg: "consult failed"}
		}
		return nil
	}
	for k, s := range c.Steps {
		if s.Kind == "assertz" {
			pm, ok := m[s.Pred]
			if !ok || !pm.dynamic {
				continue
			}
			res := i.Query(fmt.Sprintf("assertz(%s).", head(s.Pred, fmt.Sprint(s.ID))), []string{}, 1, 100000)
			if res.Err != nil || len(res.Answers) != 1 {
				return st, fmt.Errorf("step %d: assertz(%s(%d)) on a dynamic predicate failed: %v", k+1, s.Pred, s.ID, res.Err)
			}
			pm.clauses = append(pm.clauses, s.ID)
			if err := compareAll(i, m, fmt.Sprintf("after step %d assertz(%s(%d))", k+1, s.Pred, s.ID)); err != nil {
				return st, err
			}
			continue
		}
		if len(m) > 0 {
			st.overEarlier = true
		}
		// fault-injected variants first: each must fail and leave everything as it was
		for _, f := range s.Faults {
			f := f
			if f.Kind == "separated" {
				// the point of reference is the same text with `:- true.` in that place: that a directive separates the
				// clauses of a predicate (they are no longer consecutive read-terms) is this implementation's reading of
				// "separated by others"; what is demanded is that every harmless directive is treated like that one
				ref := f
				ref.Arg = ":- true.\n"
				text := render(s.Items, &ref)
				e := load(text)
				if e == nil {
					return st, nil // directives do not separate clauses here: the text is loaded, the case ends
				}
				st.failedLoads++
				if err := compareAll(i, m, fmt.Sprintf("after the failed load of step %d (fault %v, error %s) of\n%s", k+1, ref, e, text)); err != nil {
					return st, err
				}
			}
			text := render(s.Items, &f)
			e := load(text)
			st.failedLoads++
			if e == nil {
				return st, fmt.Errorf("step %d: the text with the fault %v loaded without error:\n%s", k+1, f, text)
			}
			if e.Kind == "panic" || e.Kind == "budget" {
				return st, fmt.Errorf("step %d: loading the faulty text ended with %s", k+1, e)
			}
			if err := compareAll(i, m, fmt.Sprintf("after the failed load of step %d (fault %v, error %s) of\n%s", k+1, f, e, text)); err != nil {
				return st, err
			}
		}
		// the good text
		i.Out.Reset()
		text := render(s.Items, nil)
		if e := load(text); e != nil {
			return st, fmt.Errorf("step %d: loading a valid text failed with %s:\n%s", k+1, e, text)
		}
		fileNo++
		st.okLoads++
		wantOut := m.applyLoad(s.Items)
		if err := compareAll(i, m, fmt.Sprintf("after the load of step %d:\n%s", k+1, text)); err != nil {
			return st, err
		}
		if got := i.Out.String(); got != wantOut {
			return st, fmt.Errorf("step %d: directives and initialization goals wrote %q, expected %q (directives at their position, initialization goals after the load, seeing it):\n%s", k+1, got, wantOut, text)
		}
	}
	return st, nil
}

func init() { h.Reg("c20", func(c Case) error { _, err := check(c); return err }) }

// ---- generator ---------------------------------------------------------------------------------------------

func u(t *rapid.T, n int, l string) int { return int(rapid.Uint64().Draw(t, l) % uint64(n)) }

type run struct {
	pred string
	ids  []int
}

func genText(t *rapid.T, serial *int) ([]Item, bool) {
	np := 1 + u(t, 3, "npreds")
	order := []int{0, 1, 2, 3, 4}
	for k := 4; k > 0; k-- { // permutation from draws
		j := u(t, k+1, "perm")
		order[k], order[j] = order[j], order[k]
	}
	var items []Item
	var runs []run
	interleaved := false
	for _, pi := range order[:np] {
		p := preds[pi]
		disc := false
		for _, d := range []string{"dynamic", "discontiguous", "multifile"} {
			if u(t, 4, "decl:"+d) == 0 {
				items = append(items, Item{Kind: "decl", Pred: p, Decl: d, Form: u(t, 3, "form")})
				if d == "discontiguous" {
					disc = true
				}
			}
		}
		nr := 1
		if disc {
			nr = 1 + u(t, 3, "nruns")
		}
		if u(t, 12, "declonly") == 0 {
			nr = 0
		}
		for k := 0; k < nr; k++ {
			var ids []int
			nc := 1 + u(t, 7, "nclauses")
			if u(t, 25, "longrun") == 0 { // a long run (the loader collects the clauses of a run in a buffer)
				nc = 30 + u(t, 45, "longrunlen")
			}
			for c := nc; c > 0; c-- {
				*serial++
				ids = append(ids, *serial)
			}
			runs = append(runs, run{p, ids})
		}
		if nr > 1 {
			interleaved = true
		}
	}
	for k := len(runs) - 1; k > 0; k-- {
		j := u(t, k+1, "runperm")
		runs[k], runs[j] = runs[j], runs[k]
	}
	for k, rn := range runs {
		if k > 0 && runs[k-1].pred != rn.pred && u(t, 3, "out") == 0 {
			*serial++
			items = append(items, Item{Kind: "out", ID: *serial})
		}
		if u(t, 6, "init") == 0 {
			items = append(items, Item{Kind: "init", Pred: rn.pred})
		}
		for _, id := range rn.ids {
			items = append(items, Item{Kind: "clause", Pred: rn.pred, ID: id, Rule: u(t, 2, "rule") == 0, Alt: u(t, 5, "alt") == 0})
		}
	}
	return items, interleaved
}

// faults enumerates one fault of each kind at every position (quick: a sample of positions).
func genFaults(t *rapid.T, items []Item, all bool) []Fault {
	var out []Fault
	for pos := 0; pos <= len(items); pos++ {
		if !all && u(t, 3, "atpos") != 0 {
			continue
		}
		out = append(out,
			Fault{Pos: pos, Kind: "syntax", Arg: syntaxFaults[u(t, len(syntaxFaults), "syn")]},
			Fault{Pos: pos, Kind: "noncallable", Arg: nonCallable[u(t, len(nonCallable), "nc")]},
			Fault{Pos: pos, Kind: "directive", Arg: badDirectives[u(t, len(badDirectives), "dir")]})
		if pos == len(items) {
			out = append(out, Fault{Pos: pos, Kind: "syntax", Arg: endFaults[u(t, len(endFaults), "end")]})
		}
		if pos > 0 && pos < len(items) && items[pos-1].Kind == "clause" && items[pos].Kind == "clause" && items[pos-1].Pred == items[pos].Pred {
			declared := false
			for _, it := range items {
				declared = declared || (it.Kind == "decl" && it.Decl == "discontiguous" && it.Pred == items[pos].Pred)
			}
			if !declared {
				out = append(out, Fault{Pos: pos, Kind: "separated", Arg: separators[u(t, len(separators), "sep")]})
			}
		}
		// a discontiguity: a clause of a predicate that already has clauses in the text, placed after a clause of another
		// predicate, without a discontiguous declaration
		if pos > 0 && items[pos-1].Kind == "clause" {
			seen := map[string]bool{}
			disc := map[string]bool{}
			for _, it := range items {
				if it.Kind == "decl" && it.Decl == "discontiguous" {
					disc[it.Pred] = true
				}
			}
			for _, it := range items[:pos] {
				if it.Kind == "clause" {
					seen[it.Pred] = true
				}
			}
			for _, p := range preds {
				if seen[p] && !disc[p] && items[pos-1].Pred != p {
					out = append(out, Fault{Pos: pos, Kind: "discontiguous", Arg: p})
					break
				}
			}
		}
	}
	return out
}

func genCase(all bool) *rapid.Generator[Case] {
	return rapid.Custom(func(t *rapid.T) Case {
		c := Case{Via: []string{"exec", "exec", "consult", "consultfs"}[u(t, 4, "via")]}
		serial := 0
		for k, n := 0, 1+u(t, 4, "nloads"); k < n; k++ {
			items, _ := genText(t, &serial)
			c.Steps = append(c.Steps, Step{Kind: "load", Items: items, Faults: genFaults(t, items, all)})
			if u(t, 3, "assert") == 0 {
				serial++
				c.Steps = append(c.Steps, Step{Kind: "assertz", Pred: preds[u(t, 4, "ap")], ID: serial})
			}
		}
		return c
	})
}

func TestProp(t *testing.T) {
	r := h.Start(t, "C20")
	defer r.Finish(t)
	r.Rule("rapid-generated histories of 1-4 loads on one interpreter (through Exec, through consult/1 of a file, or through consult/1 on a host file system whose files return 13 bytes per read - a new file name after every successful load, the same name again after a failed one), optionally followed by assertz on a dynamic predicate. A text defines 1-3 of the predicates p1..p4 (unary) and w3/3 (structured head arguments) by clauses carrying serial numbers (facts, rules, and rules whose body is a top-level disjunction - one clause of the text, two alternatives in source order), in runs of 1-7 clauses (now and then 30-74), several interleaved runs for predicates declared discontiguous, with dynamic/discontiguous/multifile declarations in the three forms (p/1, [p/1], (p/1, q/1)), declaration-only predicates, output directives between runs of different predicates and initialization/1 goals that print what they can see. Fault injection: before the good text is loaded, one fault of each kind is injected at every position (quick: at a third of the positions) - a syntax error (unbalanced bracket, stray token, unterminated quoted atom / string / comment / 0', missing end; at the end of the text also a last read-term without its end token followed by nothing but layout or a comment), a non-callable clause, a failing / throwing / unknown directive, a clause that makes a predicate discontiguous without declaration, a harmless directive (initialization/1, true) between two clauses of an undeclared predicate, which must be treated as `:- true.` in that place is (the clauses are then not consecutive read-terms: the load fails; were it to load, the case would end there) - and every such text is loaded on the same interpreter. Oracle: a model map predicate -> clause list. A faulty text must make the load return an error and leave every predicate (of this and of earlier texts) enumerating exactly as before (answers, or the same existence error); a good text must load, give every predicate of the text exactly its clauses in source order (replacing the earlier definition unless multifile on both sides, then appended), the directives' output in text order followed by the initialization goals' output computed on the loaded database. Non-trivial: a text with >= 2 predicates or interleaved runs loaded over an earlier text, with faults injected. Distinct by case.",
		"the load model in props/c20", "effects of directives that ran before a fault are not asserted (only output directives are generated)")
	r.Regress(t)
	if r.Failed() {
		return
	}
	all := !r.Quick()
	r.Rapid(t, "loads", r.Pick(5000, 50000), func(t *rapid.T) {
		c := genCase(all).Draw(t, "case")
		st, err := check(c)
		r.Label("sampled")
		r.Label("via:" + c.Via)
		r.Eval(st.loads)
		r.LabelN("failed_loads", st.failedLoads)
		r.LabelN("successful_loads", st.okLoads)
		if st.overEarlier && st.failedLoads > 0 {
			r.NonTrivial(h.Hash(c), c.Via, func() any { return c.String() })
		}
		if err != nil {
			r.Fail(t, "c20", c, err)
		}
	})
}

func TestReplay(t *testing.T) { h.Replay(t, "C20") }
func TestKnown(t *testing.T)  { h.KnownRepro(t, "C20") }
