package c04

import (
	"testing"

	"pgregory.net/rapid"

	"verif/internal/diff"
	"verif/internal/gen"
	"verif/internal/h"
	"verif/internal/ref"
)

var feats = gen.Features{NestedDisj: true, TopDisj: true, Call: true, Cut: true, Ite: true, Neg: true, AllSol: true, Catch: true, Write: true, Lib: true, Deep: true, Flags: true, Strings: true}

func opts() diff.Opts {
	o := diff.DefaultOpts()
	o.CompareOutput = true
	return o
}

// scenarios: hand-written programs (clauses separated by '|', then '?-' query) run through the same
// differential comparison before the search: the ISO 7.8.9 / 7.8.10 examples and the shapes the
// property singles out.
var scenarios = []string{
	"foo(X) :- Y is X * 2, throw(test(Y)) | bar(X) :- X = Y, throw(Y) | coo(X) :- throw(X) | car(X) :- X = 1, throw(X) | g :- catch(p, _B, write(h2)), fail | g | p | p :- throw(b) ?- catch(foo(5), test(Y), true)",
	"bar(X) :- X = Y, throw(Y) ?- catch(bar(3), Z, true)",
	"?- catch(true, _, 3)",
	"?- catch(true, _C, write(demoen)), throw(bla)",
	"car(X) :- X = 1, throw(X) ?- catch(car(X), Y, true)",
	"?- catch(number_codes_missing(X), error(existence_error(procedure, PI), _), true)",
	"g :- catch(p, _B, write(h2)), fail | g | p | p :- throw(b) ?- catch(g, C, write(h1))",
	"coo(X) :- throw(X) ?- catch(coo(_X), Y, true)",
	"?- catch(true, _, write(caught)), throw(x)",
	"?- catch(n(X), _, write(caught)), write(X), X == 2, throw(after(X))",
	"?- catch((n(X), write(X), (X == 2 -> throw(two) ; true)), two, write(c)), X \\== 1",
	"?- catch(catch(throw(a), b, write(inner)), a, write(outer))",
	"?- catch(catch(throw(a), a, throw(b)), b, write(outer))",
	"?- catch(catch(throw(a), a, write(inner)), a, write(outer)), throw(a)",
	"?- catch((X = 1, throw(f(X))), f(Y), true)",
	"?- catch((X = 1, throw(oops)), oops, true), var(X)",
	"?- X = 1, catch(throw(X), 2, write(no))",
	"?- catch(call(1), error(type_error(T, C), _), true)",
	"?- catch(X is a + 1, error(E, _), true)",
	"?- catch(X is Y + 1, error(E, _), true)",
	"?- catch(undefined_pred, error(E, _), true)",
	"?- catch(findall(X, (n(X), X == 2, throw(in(X))), _), in(Y), true)",
	"?- catch(\\+ throw(neg), neg, write(c))",
	"?- catch((n(X), !, throw(cut(X))), cut(Y), true)",
	"p :- catch(n(_), _, true), !, throw(p) ?- catch(p, E, true)",
	"?- catch(throw(_), E, true)",
	"?- catch(throw(f(_A, _A, _B)), f(1, X, Y), true)",
	"?- catch(throw(first), second, true)",
	"?- catch((write(a), throw(x), write(b)), x, write(c)), write(d)",
	"r(X) :- catch(n(X), _, true) ?- r(X), X == 3, throw(late)",
	"?- catch(n(X), E, true), catch(throw(X), 2, write(two)), write(X)",
	"?- catch((n(X), catch(throw(X), 2, write(i))), Y, write(o(Y)))",
	"?- findall(X-E, catch((n(X), (X == 2 -> throw(e2) ; true)), E, true), L)",
	"?- catch((catch(n(X), _, write(never)), X == 2, throw(t(X))), t(Z), write(z(Z)))",
}

func scenario(src string) *gen.Program {
	p := &gen.Program{}
	for _, c := range []string{"n(1)", "n(2)", "n(3)", "m(a)", "m(b)"} {
		p.Clauses = append(p.Clauses, gen.MustParse(c))
	}
	prog, query := "", src
	for i := 0; i+1 < len(src); i++ {
		if src[i:i+2] == "?-" {
			prog, query = src[:i], src[i+2:]
		}
	}
	for _, c := range splitBar(prog) {
		p.Clauses = append(p.Clauses, gen.MustParse(c))
	}
	p.Query = gen.AnonErrorContexts(gen.MustParse(query))
	return p
}

func splitBar(s string) []string {
	var out []string
	cur := ""
	for i := 0; i < len(s); i++ {
		if s[i] == '|' && i > 0 && s[i-1] == ' ' && i+1 < len(s) && s[i+1] == ' ' {
			out = append(out, cur)
			cur = ""
			continue
		}
		cur += string(s[i])
	}
	if len(trim(cur)) > 0 {
		out = append(out, cur)
	}
	return out
}

func trim(s string) string {
	for len(s) > 0 && (s[0] == ' ' || s[0] == '\n') {
		s = s[1:]
	}
	for len(s) > 0 && (s[len(s)-1] == ' ' || s[len(s)-1] == '\n') {
		s = s[:len(s)-1]
	}
	return s
}

func check(p *gen.Program) error {
	o := diff.Run(p, opts())
	if o.Discard != "" {
		return nil
	}
	return o.Err
}

func init() { h.Reg("c04", check) }

func TestProp(t *testing.T) {
	r := h.Start(t, "C04")
	defer r.Finish(t)
	r.Rule("a fixed table of hand-written scenarios (ISO 7.8.9/7.8.10 examples, throw after an exited catch, throw after re-entry by backtracking, nesting, balls sharing variables, built-in errors) followed by rapid-generated programs combining catch/3 and throw/1 at nesting depth <= 3 with nondeterministic goals, cut, \\+, once, if-then-else, findall/bagof/setof, built-in errors (type, instantiation, existence), balls that are atoms / compounds sharing variables / unbound, catchers that do or do not unify, recovery goals that throw, write/1 progress markers; dedicated productions for a throw in the continuation of an exited catch and after backtracking into the catch goal. Oracle: the reference machine (catch chains, ball copied at throw time, trail undone to the catch's mark); compared: answer sequence, final error ball up to renaming (context argument of error/2 masked), and the exact text written to user_output. Non-trivial: the reference run raised at least one throw and either caught it or ended with it. Distinct by (program, query).",
		"the reference machine's catch-chain model (DESIGN.md 2.3.1)",
		"the context argument of error/2 is implementation defined: masked in answers, left anonymous in generated catchers")
	if r.Shard() == 0 {
		if err := diff.OracleSelfTest(); err != nil {
			t.Fatalf("%v", err)
		}
		r.LabelN("oracle_self_test_examples", ref.NExamples())
	}
	r.Regress(t)
	if r.Failed() {
		return
	}
	if r.Shard() == 0 {
		for _, s := range scenarios {
			p := scenario(s)
			o := diff.Run(p, opts())
			r.Eval(1)
			if o.Discard != "" {
				t.Fatalf("infrastructure: scenario %q discarded: %s", s, o.Discard)
			}
			r.Label("scenario")
			r.NonTrivial(h.Hash(p), "scenario", func() any { return s })
			if o.Err != nil {
				r.Fail(t, "c04", p, o.Err)
			}
		}
	}
	r.Rapid(t, "programs", r.Pick(40000, 1500000), func(t *rapid.T) {
		p := gen.GenProgram(feats).Draw(t, "program")
		o := diff.Run(p, opts())
		r.Label("sampled")
		if p.DQ != "" || p.UnknownFail {
			r.Label("with_non_default_flags")
		}
		if p.Deep {
			r.Label("with_a_deep_recursion")
		}
		if o.Discard != "" {
			r.Discard(o.Discard)
			return
		}
		r.Eval(1)
		st := o.Ref.Stats
		if st.ThrowsCaught > 0 {
			r.Label("throw_caught")
		}
		if st.ThrowAfterCatchExit > 0 {
			r.Label("throw_after_a_catch_goal_exited")
		}
		if st.CatchReentered > 0 {
			r.Label("catch_goal_reentered_by_backtracking")
		}
		if st.CatchExitNondet > 0 {
			r.Label("catch_goal_exited_nondeterministically")
		}
		if o.Ref.Ball != nil {
			r.Label("ends_with_uncaught_ball")
		}
		if o.Ref.Output != "" {
			r.Label("wrote_output")
		}
		if st.Throws > 0 && (st.ThrowsCaught > 0 || o.Ref.Ball != nil) {
			r.NonTrivial(h.Hash(p), "sampled", func() any { return p.String() })
		}
		if o.Err != nil {
			r.Fail(t, "c04", p, o.Err)
		}
	})
}

func TestReplay(t *testing.T) { h.Replay(t, "C04") }
func TestKnown(t *testing.T)  { h.KnownRepro(t, "C04") }
