package c14

import (
	"encoding/json"
	"fmt"
	"os"
	"path/filepath"
	"reflect"
	"strings"
	"sync"
	"sync/atomic"
	"testing"
	"testing/fstest"

	"github.com/ichiban/prolog"
	"pgregory.net/rapid"

	"verif/internal/diff"
	"verif/internal/gen"
	"verif/internal/h"
	"verif/internal/rt"
	"verif/internal/sut"
)

// Case "round": N interpreters, one goroutine each, started behind a barrier; interpreter k runs
// Programs[k % len(Programs)] (one shared program = all of them intern the same new atoms at once).
// Case "isolation": a mutator in A, an observer in B.
type Case struct {
	Kind     string         `json:"kind"`
	N        int            `json:"n,omitempty"`
	Programs []*gen.Program `json:"programs,omitempty"`
	Pair     int            `json:"pair,omitempty"`
	Big      bool           `json:"big,omitempty"` // every interpreter also loads a long text (about 300 KB) of atoms new to the process
}

func (c Case) String() string {
	if c.Kind == "isolation" {
		return "isolation: " + pairs[c.Pair].name
	}
	var ps []string
	for _, p := range c.Programs {
		ps = append(ps, p.String())
	}
	return fmt.Sprintf("%d interpreters concurrently over %d program(s):\n%s", c.N, len(c.Programs), strings.Join(ps, "\n---\n"))
}

var saltCounter atomic.Int64

// salted renames the data atoms of the program so that every round creates new atoms.
func salted(t *rt.Term, salt string) *rt.Term {
	switch t.K {
	case rt.Atom:
		switch t.S {
		case "a", "b", "c":
			return rt.A(t.S + "_" + salt)
		}
		return t
	case rt.Comp:
		args := make([]*rt.Term, len(t.A))
		for i, a := range t.A {
			args[i] = salted(a, salt)
		}
		name := t.S
		if name == "f" || name == "g" {
			name += "_" + salt
		}
		return rt.C(name, args...)
	}
	return t
}

func saltProgram(p *gen.Program, salt string) *gen.Program {
	q := &gen.Program{Dynamic: p.Dynamic, Query: salted(p.Query, salt)}
	for _, c := range p.Clauses {
		q.Clauses = append(q.Clauses, salted(c, salt))
	}
	return q
}

type result struct {
	answers string
	extra   string
	atoms   int
	err     error
}

// workload: create, load, query, create atoms (atom_codes, atom_concat, parsing), write, number_codes.
func workload(i *sut.I, p *gen.Program, salt string, k int, big bool) (r result) {
	// the first thing every interpreter does after the common start: read one text holding 100 atoms that are new to
	// the process and the same in all interpreters of the round (they are interned within microseconds of each other)
	var names []string
	for j := 0; j < 100; j++ {
		names = append(names, fmt.Sprintf("batch_%s_%d", salt, j))
	}
	batch := "[" + strings.Join(names, ", ") + "]"
	if rr := i.Query("assertz(batch("+batch+")).", nil, 2, 200000); rr.Err != nil || len(rr.Answers) != 1 {
		r.err = fmt.Errorf("interpreter %d: storing the batch of new atoms failed: %v", k, rr.Err)
		return r
	}
	defer func() {
		// at the end the stored atoms are still the atoms those names denote, pairwise distinct
		if r.err != nil {
			return
		}
		rr := i.Query("batch(L), L == "+batch+", sort(L, S), length(S, N).", []string{"N"}, 2, 500000)
		if rr.Err != nil || len(rr.Answers) != 1 || rr.Answers[0][0].String() != "100" {
			r.err = fmt.Errorf("interpreter %d: the 100 atoms stored at the start are no longer the atoms their names denote (answers %v, err %v)", k, rr.Answers, rr.Err)
		}
	}()
	if e := i.Exec(p.Text(), 2_000_000); e != nil {
		r.err = fmt.Errorf("load failed: %s", e)
		return r
	}
	q, names := p.QueryText()
	res := i.Query(q, names, 10, 60000)
	var b strings.Builder
	for _, a := range res.Answers {
		b.WriteString(rt.Strings(a) + ";")
	}
	if res.Err != nil {
		if res.Err.Kind == "ball" {
			b.WriteString("ball " + rt.Canon([]*rt.Term{res.Err.Ball.MaskErrorContext()})[0].String())
		} else {
			b.WriteString(res.Err.Kind)
		}
	}
	r.answers = b.String()
	// atom creation, shared names (same in every interpreter of the round) and own names
	var x strings.Builder
	for j := 0; j < 12; j++ {
		shared := fmt.Sprintf("sh_%s_%d", salt, j)
		own := fmt.Sprintf("own_%s_%d_%d", salt, k, j)
		qs := []string{
			fmt.Sprintf("assertz(fact(%s)), fact(X), X == %s, atom_length(X, L), atom_codes(X, Cs), atom_codes(Y, Cs), X == Y.", shared, shared),
			fmt.Sprintf("atom_concat(%s, '_tail', A), atom_concat(B, '_tail', A), B == %s, write(A).", own, own),
			fmt.Sprintf("T = point_%s(%s, V, V), copy_term(T, U), U = point_%s(P, 1, Q), Q == 1, P == %s.", salt, shared, salt, shared),
			"number_chars(N, \"42\"), M is N * 2, number_codes(M, Ds), atom_codes(At, Ds), write(At).",
		}
		for _, qq := range qs {
			rr := i.Query(qq, nil, 2, 200000)
			if rr.Err != nil || len(rr.Answers) != 1 {
				r.err = fmt.Errorf("interpreter %d: the query %s has %d answers, err %v (it has exactly one when run alone)", k, qq, len(rr.Answers), rr.Err)
				return r
			}
			x.WriteString(rt.Strings(rr.Answers[0]) + ";")
			r.atoms += 2
		}
	}
	// flags: every interpreter sets its own values and reads them back, singly and by enumeration, while the others do
	// the same with other values
	dq := []string{"codes", "chars", "atom"}[k%3]
	unk := []string{"error", "fail", "warning"}[(k/3)%3]
	for rep := 0; rep < 6; rep++ {
		rr := i.Query(fmt.Sprintf("set_prolog_flag(double_quotes, %s), set_prolog_flag(unknown, %s), current_prolog_flag(double_quotes, D), current_prolog_flag(unknown, U), findall(F-V, current_prolog_flag(F, V), L), member(double_quotes-D2, L), member(unknown-U2, L).", dq, unk), []string{"D", "U", "D2", "U2"}, 2, 200000)
		if rr.Err != nil || len(rr.Answers) != 1 || rt.Strings(rr.Answers[0]) != fmt.Sprintf("(%s, %s, %s, %s)", dq, unk, dq, unk) {
			r.err = fmt.Errorf("interpreter %d set double_quotes=%s, unknown=%s and reads back %v (err %v)", k, dq, unk, rr.Answers, rr.Err)
			return r
		}
	}
	if e := i.Exec(":- set_prolog_flag(double_quotes, chars), set_prolog_flag(unknown, error).\n", 100000); e != nil {
		r.err = fmt.Errorf("interpreter %d: %s", k, e)
		return r
	}
	// '$VAR'(N) terms written under numbervars(true), with numbers that differ between the interpreters
	for rep := 0; rep < 10; rep++ {
		a, b, c := k*7+rep, 26+k, 1000+k*13+rep
		before := len(i.Out.String())
		rr := i.Query(fmt.Sprintf("write_term(f('$VAR'(%d), '$VAR'(%d), g('$VAR'(%d))), [numbervars(true)]), write('$VAR'(%d)).", a, b, c, a), nil, 2, 200000)
		nv := func(n int) string {
			s := string(rune('A' + n%26))
			if n >= 26 {
				s += fmt.Sprint(n / 26)
			}
			return s
		}
		want := fmt.Sprintf("f(%s,%s,g(%s))%s", nv(a), nv(b), nv(c), nv(a))
		if got := i.Out.String()[before:]; rr.Err != nil || len(rr.Answers) != 1 || got != want {
			r.err = fmt.Errorf("interpreter %d wrote %q for f('$VAR'(%d),'$VAR'(%d),g('$VAR'(%d))) and '$VAR'(%d) under numbervars(true), expected %q (err %v)", k, got, a, b, c, a, want, rr.Err)
			return r
		}
	}
	// a long text (beyond any fixed-size buffer of the reader) full of atoms that the other interpreters create at
	// the same time; afterwards every one of them still has its own text
	if big {
		var tb strings.Builder
		const nBig = 7000
		for j := 0; j < nBig; j++ {
			fmt.Fprintf(&tb, "big(%d, bg_%s_%d_padding_padding).\n", j, salt, j)
		}
		if e := i.Exec(tb.String(), 50_000_000); e != nil {
			r.err = fmt.Errorf("interpreter %d: loading the long text failed: %s", k, e)
			return r
		}
		sols, err := i.P.Query("big(N, A).")
		if err != nil {
			r.err = fmt.Errorf("interpreter %d: %v", k, err)
			return r
		}
		n := 0
		for sols.Next() {
			var row struct {
				N int
				A string
			}
			if err := sols.Scan(&row); err != nil || row.N != n || row.A != fmt.Sprintf("bg_%s_%d_padding_padding", salt, n) {
				sols.Close()
				r.err = fmt.Errorf("interpreter %d: clause %d of the long text is big(%d, %s) (err %v)", k, n, row.N, row.A, err)
				return r
			}
			n++
		}
		sols.Close()
		if n != nBig {
			r.err = fmt.Errorf("interpreter %d: the long text has %d clauses, %d are there (err %v)", k, nBig, n, sols.Err())
			return r
		}
	}
	// the host side of an answer: Scan into a struct type that no interpreter of this process has scanned into
	// before this round (so whatever the library keeps per destination type is built by the concurrent
	// interpreters at the same moment), then again into the same type
	typ := reflect.StructOf([]reflect.StructField{
		{Name: "X", Type: reflect.TypeOf(0)},
		{Name: "Y", Type: reflect.TypeOf("")},
		{Name: "Zs", Type: reflect.TypeOf([]int{}), Tag: `prolog:"Z"`},
		{Name: "W", Type: reflect.TypeOf((*interface{})(nil)).Elem()},
		{Name: "Pad" + strings.ReplaceAll(salt, "_", "x"), Type: reflect.TypeOf(0)},
	})
	for rep := 0; rep < 2; rep++ {
		sols, err := i.P.Query(fmt.Sprintf("X = %d, Y = own_%s_%d, Z = [%d, 2, 3], W = w.", k+1, salt, k, k+7))
		if err != nil {
			r.err = fmt.Errorf("interpreter %d: Query: %v", k, err)
			return r
		}
		dst := reflect.New(typ)
		if !sols.Next() {
			r.err = fmt.Errorf("interpreter %d: no answer to a query that has one alone: %v", k, sols.Err())
			return r
		}
		err = sols.Scan(dst.Interface())
		sols.Close()
		want := fmt.Sprintf("{%d own_%s_%d [%d 2 3]", k+1, salt, k, k+7)
		if got := fmt.Sprintf("%v", dst.Elem().Interface()); err != nil || !strings.HasPrefix(got, want+" ") || dst.Elem().Field(3).IsNil() {
			r.err = fmt.Errorf("interpreter %d: Scan into a struct gave %s (err %v), the answer is %s w 0}", k, got, err, want)
			return r
		}
	}
	r.extra = x.String() + "|" + i.Out.String()
	return r
}

func checkRound(c Case) (atoms int, err error) {
	salt := fmt.Sprintf("%d_%d", os.Getpid(), saltCounter.Add(1))
	progs := make([]*gen.Program, len(c.Programs))
	for k, p := range c.Programs {
		progs[k] = saltProgram(p, salt)
	}
	results := make([]result, c.N)
	var ready, start, done sync.WaitGroup
	start.Add(1)
	for k := 0; k < c.N; k++ {
		done.Add(1)
		ready.Add(1)
		go func(k int) {
			defer done.Done()
			i := sut.New() // (created before the common start, so that the first texts are read at the same moment)
			ready.Done()
			start.Wait()
			results[k] = workload(i, progs[k%len(progs)], salt, k, c.Big)
		}(k)
	}
	ready.Wait()
	start.Done()
	done.Wait()
	minAtoms := 1 << 30
	for k := 0; k < c.N; k++ {
		if results[k].err != nil {
			return 0, results[k].err
		}
		if results[k].atoms < minAtoms {
			minAtoms = results[k].atoms
		}
		// alone, afterwards (the atoms exist by now; the answers do not depend on that)
		solo := workload(sut.New(), progs[k%len(progs)], salt, k, false)
		if solo.err != nil {
			return 0, fmt.Errorf("infrastructure: the solo run failed: %v", solo.err)
		}
		if solo.answers != results[k].answers {
			return 0, fmt.Errorf("interpreter %d answered %q concurrently and %q alone", k, results[k].answers, solo.answers)
		}
		if solo.extra != results[k].extra {
			return 0, fmt.Errorf("interpreter %d: atom / output workload differs: concurrently %q, alone %q", k, results[k].extra, solo.extra)
		}
	}
	return minAtoms, nil
}

// ---- isolation table ------------------------------------------------------------------------------------

type pair struct {
	name     string
	setup    string // run in both
	mutate   string // run in A
	observe  string // run in B before and after, and in A after (must differ there)
	openEnum bool   // the observer is an enumeration that is open in B while A mutates and queries
}

var pairs = []pair{
	{"assertz vs call", ":- dynamic(d/1). d(0).", "assertz(d(1)).", "findall(X, d(X), L).", false},
	{"assertz vs open enumeration", ":- dynamic(d/1). d(0). d(5).", "assertz(d(1)), findall(X, d(X), _).", "d(X).", true},
	{"op/3 vs current_op", "", "op(700, xfx, ===>).", "findall(P-T, current_op(P, T, ===>), L).", false},
	{"op/3 vs reading", "", "op(200, xfy, &&).", "X = (1 && 2).", false},
	{"op/3 vs open current_op enumeration", "", "op(1, fx, zzz), findall(N, current_op(_,_,N), _).", "current_op(P, T, N).", true},
	{"double_quotes flag", "", "set_prolog_flag(double_quotes, atom).", "current_prolog_flag(double_quotes, V).", false},
	{"unknown flag", "", "set_prolog_flag(unknown, fail).", "current_prolog_flag(unknown, V).", false},
	{"unknown flag behaviour", "", "set_prolog_flag(unknown, fail).", "catch(no_such_pred_zz, error(E, _), true).", false},
	{"char_conversion flag", "", "set_prolog_flag(char_conversion, on).", "current_prolog_flag(char_conversion, V).", false},
	{"flags vs open current_prolog_flag enumeration", "", "set_prolog_flag(double_quotes, atom), set_prolog_flag(unknown, fail), findall(F-V, current_prolog_flag(F, V), _).", "current_prolog_flag(F, V).", true},
	{"char_conversion/2", "", "char_conversion(a, b).", "findall(X-Y, (current_char_conversion(X, Y), X \\== Y), L).", false},
	{"open alias", "", "open('%FILE%', write, _, [alias(shared_alias)]).", "catch((stream_property(S, alias(shared_alias)) -> R = yes ; R = no), _, R = err).", false},
	{"set_output", "", "open('%FILE%', write, S), set_output(S).", "current_output(S), (stream_property(S, alias(user_output)) -> R = user ; R = other).", false},
	{"set_input", "", "open('%FILE2%', read, S), set_input(S).", "current_input(S), (stream_property(S, alias(user_input)) -> R = user ; R = other).", false},
	{"consult", "", "consult('%FILE2%').", "catch(findall(X, loaded_fact(X), L), error(E, _), L = E).", false},
}

func run(i *sut.I, q string) string {
	r := i.Query(q, nil, 50, 500000)
	var b strings.Builder
	for _, a := range r.Answers {
		// stream terms are opaque and differ by address: compare by kind only
		b.WriteString(rt.Strings(a) + ";")
	}
	if r.Err != nil {
		b.WriteString("ERR " + r.Err.String())
	}
	return b.String()
}

func checkIsolation(c Case) error {
	p := pairs[c.Pair]
	dir, err := os.MkdirTemp("", "c14-")
	if err != nil {
		return fmt.Errorf("infrastructure: %v", err)
	}
	defer os.RemoveAll(dir)
	f1, f2 := filepath.Join(dir, "out.txt"), filepath.Join(dir, "in.pl")
	_ = os.WriteFile(f2, []byte("loaded_fact(1).\n"), 0o644)
	sub := func(s string) string {
		return strings.ReplaceAll(strings.ReplaceAll(s, "%FILE%", f1), "%FILE2%", f2)
	}
	a, b := sut.New(), sut.New()
	for _, i := range []*sut.I{a, b} {
		if p.setup != "" {
			if e := i.Exec(sub(p.setup), 500000); e != nil {
				return fmt.Errorf("infrastructure: setup failed: %s", e)
			}
		}
	}
	if p.openEnum {
		// B's enumeration is open while A mutates its own state and runs the same kind of query
		fresh := sut.New()
		if p.setup != "" {
			if e := fresh.Exec(sub(p.setup), 500000); e != nil {
				return fmt.Errorf("infrastructure: setup failed: %s", e)
			}
		}
		want := run(fresh, p.observe)
		sols, err := b.P.Query(p.observe)
		if err != nil {
			return fmt.Errorf("infrastructure: %v", err)
		}
		defer sols.Close()
		var got strings.Builder
		first := true
		for sols.Next() {
			m := map[string]sut.Box{}
			if err := sols.Scan(m); err != nil {
				return fmt.Errorf("infrastructure: %v", err)
			}
			var names []string
			for k := range m {
				if !strings.HasPrefix(k, "_") {
					names = append(names, k)
				}
			}
			sortStrings(names)
			tuple := make([]*rt.Term, len(names))
			for k, n := range names {
				tuple[k] = m[n].T
			}
			got.WriteString(rt.Strings(rt.Canon(tuple)) + ";")
			if first {
				first = false
				if r := run(a, sub(p.mutate)); strings.HasPrefix(r, "ERR") || r == "" {
					return fmt.Errorf("infrastructure: the mutator %s failed in A: %q", p.mutate, r)
				}
			}
		}
		if sols.Err() != nil {
			got.WriteString("ERR")
		}
		// (the order of current_op/3 and current_prolog_flag/2 answers is unspecified: compare as multisets)
		norm := func(x string) string {
			parts := strings.Split(x, ";")
			sortStrings(parts)
			return strings.Join(parts, ";")
		}
		if norm(got.String()) != norm(want) {
			return fmt.Errorf("[%s] an enumeration open in B while A ran %q answered %q; alone it answers %q", p.name, p.mutate, got.String(), want)
		}
		return nil
	}
	before := run(b, sub(p.observe))
	aBefore := run(a, sub(p.observe))
	if r := run(a, sub(p.mutate)); strings.HasPrefix(r, "ERR") || r == "" {
		return fmt.Errorf("infrastructure: the mutator %s failed in A: %q", p.mutate, r)
	}
	after := run(b, sub(p.observe))
	aAfter := run(a, sub(p.observe))
	if before != after {
		return fmt.Errorf("[%s] after A ran %q, B's observer %q changed from %q to %q", p.name, p.mutate, p.observe, before, after)
	}
	if aBefore == aAfter {
		return fmt.Errorf("infrastructure: [%s] the mutator is not visible to A's own observer (%q)", p.name, aAfter)
	}
	return nil
}

func sortStrings(s []string) {
	for i := range s {
		for j := i + 1; j < len(s); j++ {
			if s[j] < s[i] {
				s[i], s[j] = s[j], s[i]
			}
		}
	}
}

// checkFS: what consult/1 loads depends on the interpreter's own file system only. Interpreter A (whose file system
// holds only name.pl) loads `name`; then interpreter B, whose file system holds both `name` and `name.pl` with
// different contents, loads `name`: it must get what it gets when no other interpreter has ever loaded that name
// (observed on a second, equally built pair of file systems under another name).
func checkFS() error {
	load := func(fsys fstest.MapFS, name string) (string, error) {
		i := sut.New()
		i.P.FS = fsys
		res := i.Query(fmt.Sprintf("consult(%s), v(X).", name), []string{"X"}, 2, 500000)
		if res.Err != nil || len(res.Answers) != 1 {
			return "", fmt.Errorf("consult(%s), v(X): %d answers, err %v", name, len(res.Answers), res.Err)
		}
		return res.Answers[0][0].String(), nil
	}
	both := func(name string) fstest.MapFS {
		return fstest.MapFS{name: {Data: []byte("v(exact_name).\n")}, name + ".pl": {Data: []byte("v(with_extension).\n")}}
	}
	salt := fmt.Sprintf("%d_%d", os.Getpid(), saltCounter.Add(1))
	control, shared := "lib_control_"+salt, "lib_shared_"+salt
	alone, err := load(both(control), control)
	if err != nil {
		return fmt.Errorf("infrastructure: %v", err)
	}
	if _, err := load(fstest.MapFS{shared + ".pl": {Data: []byte("v(with_extension).\n")}}, shared); err != nil {
		return fmt.Errorf("infrastructure: %v", err)
	}
	after, err := load(both(shared), shared)
	if err != nil {
		return err
	}
	if after != alone {
		return fmt.Errorf("an interpreter whose file system holds both NAME and NAME.pl loads %s by consult(NAME) when no other interpreter has loaded that name, but %s after another interpreter (with its own file system) has", alone, after)
	}
	return nil
}

func check(c Case) (int, error) {
	if c.Kind == "fs" {
		return 0, checkFS()
	}
	if c.Kind == "isolation" {
		return 0, checkIsolation(c)
	}
	return checkRound(c)
}

func init() { h.Reg("c14", func(c Case) error { _, err := check(c); return err }) }

var feats = gen.Features{NestedDisj: true, TopDisj: true, Call: true, Cut: true, Ite: true, Neg: true, AllSol: true, Catch: true, Lib: true}

var _ = prolog.New

func TestProp(t *testing.T) {
	r := h.Start(t, "C14")
	defer r.Finish(t)
	r.Rule("built with the Go race detector (halt_on_error). (a) rapid-generated rounds: 2-8 interpreters, one goroutine each, started behind a barrier; each goroutine creates its interpreter (prolog.New interns the bootstrap atoms), loads a generated program (the C01/C03/C04 generator) whose data atoms and functors are salted per round so they are new to the process - in half of the rounds all interpreters load the same program text, i.e. intern the same new atoms at the same moment - queries it, and runs 48 further queries that create atoms shared by all interpreters of the round and atoms of its own (atom_codes, atom_concat, parsing), create variables (copy_term), write and convert numbers. Oracle: no race report; every interpreter's answers, written output and atom identities (X == Y after going through codes) equal those of the same workload run alone. (b) an isolation table of 15 mutator/observer pairs across two interpreters (assertz, op/3, the double_quotes / unknown / char_conversion flags, char_conversion/2, open with an alias, set_input, set_output, consult; for assertz, op/3 and the flags also an enumeration that is open in B while A mutates and enumerates): B's observer answers exactly as before A's change (and A's own observer sees the change). Non-trivial: a round in which every one of >= 2 interpreters created >= 10 new atoms. Distinct by case.",
		"the Go scheduler owns the interleaving; the race detector reports unsynchronised accesses that occur in a run, whatever their order", "a race on a path the workload never executes is invisible")
	r.Regress(t)
	if r.Failed() {
		return
	}
	if r.Shard() == 0 {
		for k := range pairs {
			c := Case{Kind: "isolation", Pair: k}
			r.Eval(1)
			r.NonTrivial(h.Hash(c), "isolation", func() any { return c.String() })
			if err := checkIsolation(c); err != nil {
				r.Fail(t, "c14", c, err)
			}
		}
		r.LabelN("isolation_pairs", len(pairs))
		for k := 0; k < 3; k++ {
			c := Case{Kind: "fs"}
			r.Eval(1)
			if err := checkFS(); err != nil {
				r.Fail(t, "c14", c, err)
			}
		}
		r.LabelN("file_system_independence_checks", 3)
	}
	r.Rapid(t, "rounds", r.Pick(240, 4000), func(t *rapid.T) {
		c := Case{Kind: "round", N: 2 + int(rapid.Uint64().Draw(t, "n")%7)} // (uniform: rapid.IntRange favours the small values)
		c.Big = rapid.Uint64().Draw(t, "big")%8 == 7
		np := 1
		if rapid.Bool().Draw(t, "distinct_programs") {
			np = c.N
		}
		for k := 0; k < np; k++ {
			p := gen.GenProgram(feats).Draw(t, "program")
			// only programs whose reference run is finite and free of occurs-check situations (those build cyclic
			// terms, which ISO leaves undefined and which can overflow the stack of the process)
			if rr, _, _ := diff.RunRef(p, diff.DefaultOpts(), false); rr.Discard() != "" {
				r.Discard("program:" + rr.Discard())
				p = &gen.Program{Clauses: []*rt.Term{gen.MustParse("n(1)"), gen.MustParse("n(2)"), gen.MustParse("q(f(a), b)"), gen.MustParse("q(g(X, c), X)")}, Query: gen.MustParse("n(X), q(Y, Z)")}
			}
			c.Programs = append(c.Programs, p)
		}
		atoms, err := checkRound(c)
		r.Label("sampled_round")
		r.Eval(c.N)
		if np == 1 {
			r.Label("same_program_in_all_interpreters")
		}
		if atoms >= 10 {
			r.NonTrivial(h.Hash(c), "round", func() any {
				return fmt.Sprintf("%d interpreters, %d program(s), >= %d new atoms each; first program:\n%s", c.N, np, atoms, c.Programs[0])
			})
		}
		if err != nil {
			r.Fail(t, "c14", c, err)
		}
	})
}

func TestReplay(t *testing.T) { h.Replay(t, "C14") }
func TestKnown(t *testing.T)  { h.KnownRepro(t, "C14") }

// a race report cannot be replayed deterministically: the replay of a "race" file re-runs rounds of the workload
func init() {
	h.Register("race", func(raw json.RawMessage) error {
		return fmt.Errorf("infrastructure: a race report is not replayable deterministically; re-run ./check C14 quick (the report is in the replay file)")
	})
}
