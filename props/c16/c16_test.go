package c16

import (
	"fmt"
	"math"
	"sort"
	"strings"
	"testing"

	"pgregory.net/rapid"

	"verif/internal/h"
	"verif/internal/rt"
	"verif/internal/sut"
)

// Case: a call pred(Args) where an argument is either a ground value or unbound (rt.Var); Spec is a
// second, more instantiated version of the same call for the metamorphic subset law.
type Case struct {
	Pred string     `json:"pred"`
	Args []*rt.Term `json:"args"`
	More []*rt.Term `json:"more,omitempty"` // same call with further arguments instantiated
	// Then: a second call of the same predicate made in the same query after the first, sharing every list
	// argument that is equal in both (built once, by Built: findall | univ | copy); both calls have one answer
	Then  []*rt.Term `json:"then,omitempty"`
	Built string     `json:"built,omitempty"`
	// Tail: the goal stands in the query text itself and every ground list argument of >= 2 elements is written
	// [E1|T] with T bound to the rest by an earlier goal (a list completed late is the same list)
	Tail bool `json:"tail,omitempty"`
}

func (c Case) String() string {
	s := rt.C(c.Pred, c.Args...).String()
	if c.More != nil {
		s += "   and the more instantiated   " + rt.C(c.Pred, c.More...).String()
	}
	if c.Then != nil {
		s += "   followed in the same query by   " + rt.C(c.Pred, c.Then...).String() + " (equal list arguments are one term built by " + c.Built + ")"
	}
	return s
}

const maxAnswers = 120

// ---- reference enumerators -----------------------------------------------------------------------------

func isVar(t *rt.Term) bool { return t.K == rt.Var }

func atomOf(rs []rune) *rt.Term { return rt.A(string(rs)) }

func charList(rs []rune) *rt.Term {
	es := make([]*rt.Term, len(rs))
	for i, r := range rs {
		es[i] = rt.A(string(r))
	}
	return rt.List(es, nil)
}

func codeList(rs []rune) *rt.Term {
	es := make([]*rt.Term, len(rs))
	for i, r := range rs {
		es[i] = rt.I(int64(r))
	}
	return rt.List(es, nil)
}

func properList(t *rt.Term) ([]*rt.Term, bool) {
	es, tail := t.Unlist()
	return es, tail.IsAtom("[]")
}

// matches: the ground/var call argument admits the answer value (args are ground or a lone variable).
func matches(arg, val *rt.Term) bool { return isVar(arg) || rt.Equal(arg, val) }

// filter keeps the candidate tuples that match the call's bound arguments.
func filter(args []*rt.Term, cands [][]*rt.Term) [][]*rt.Term {
	var out [][]*rt.Term
	for _, c := range cands {
		ok := true
		for i := range args {
			ok = ok && matches(args[i], c[i])
		}
		if ok {
			out = append(out, c)
		}
	}
	return out
}

// reference returns the answers of the call as full argument tuples; ok=false: the call is outside
// the predicate's modes (or the reference does not define it) and nothing is asserted.
func reference(pred string, a []*rt.Term) (ans [][]*rt.Term, ok bool) {
	ans, ok, _ = reference3(pred, a)
	return
}

func validCode(c int64) bool { return c >= 0 && c <= 0x10FFFF && !(c >= 0xD800 && c <= 0xDFFF) }

// reference3 also reports errOK: the relation has no tuple for this call and an error is an acceptable
// way of saying so (e.g. a code that is no character code).
func reference3(pred string, a []*rt.Term) (ans [][]*rt.Term, ok bool, errOK bool) {
	switch pred {
	case "char_code":
		if isVar(a[0]) && a[1].K == rt.Int && !validCode(a[1].I) {
			return nil, true, true
		}
	case "atom_codes":
		if isVar(a[0]) {
			if es, p := properList(a[1]); p && len(es) > 0 {
				bad, allInt := false, true
				for _, e := range es {
					allInt = allInt && e.K == rt.Int
					bad = bad || (e.K == rt.Int && !validCode(e.I))
				}
				if allInt && bad {
					return nil, true, true
				}
			}
		}
	}
	ans, ok = reference2(pred, a)
	if ok {
		ans, ok = aliasFilter(a, ans)
	}
	return ans, ok, false
}

// aliasFilter: when one variable stands at two argument positions of the call, only the tuples whose values at those
// positions are equal are answers. (If such a value is not ground the comparison would need unification: outside.)
func aliasFilter(a []*rt.Term, ans [][]*rt.Term) ([][]*rt.Term, bool) {
	var pairs [][2]int
	for i := range a {
		for j := i + 1; j < len(a); j++ {
			if isVar(a[i]) && isVar(a[j]) && a[i].I == a[j].I {
				pairs = append(pairs, [2]int{i, j})
			}
		}
	}
	if len(pairs) == 0 {
		return ans, true
	}
	var out [][]*rt.Term
	for _, t := range ans {
		keep := true
		for _, p := range pairs {
			if len(t[p[0]].Vars(nil)) > 0 || len(t[p[1]].Vars(nil)) > 0 {
				return nil, false
			}
			keep = keep && rt.Equal(t[p[0]], t[p[1]])
		}
		if keep {
			out = append(out, t)
		}
	}
	return out, true
}

func reference2(pred string, a []*rt.Term) (ans [][]*rt.Term, ok bool) {
	switch pred {
	case "atom_length":
		if a[0].K != rt.Atom || !(isVar(a[1]) || a[1].K == rt.Int && a[1].I >= 0) {
			return nil, false
		}
		return filter(a, [][]*rt.Term{{a[0], rt.I(int64(len([]rune(a[0].S))))}}), true
	case "atom_concat":
		if a[2].K == rt.Atom {
			if !(isVar(a[0]) || a[0].K == rt.Atom) || !(isVar(a[1]) || a[1].K == rt.Atom) {
				return nil, false
			}
			rs := []rune(a[2].S)
			var c [][]*rt.Term
			for i := 0; i <= len(rs); i++ {
				c = append(c, []*rt.Term{atomOf(rs[:i]), atomOf(rs[i:]), a[2]})
			}
			return filter(a, c), true
		}
		if isVar(a[2]) && a[0].K == rt.Atom && a[1].K == rt.Atom {
			return [][]*rt.Term{{a[0], a[1], rt.A(a[0].S + a[1].S)}}, true
		}
		return nil, false
	case "sub_atom":
		if a[0].K != rt.Atom || !(isVar(a[4]) || a[4].K == rt.Atom) {
			return nil, false
		}
		for _, x := range a[1:4] {
			if !(isVar(x) || x.K == rt.Int && x.I >= 0) {
				return nil, false
			}
		}
		rs := []rune(a[0].S)
		var c [][]*rt.Term
		for b := 0; b <= len(rs); b++ {
			for l := 0; b+l <= len(rs); l++ {
				c = append(c, []*rt.Term{a[0], rt.I(int64(b)), rt.I(int64(l)), rt.I(int64(len(rs) - b - l)), atomOf(rs[b : b+l])})
			}
		}
		return filter(a, c), true
	case "atom_chars", "atom_codes":
		mk := charList
		if pred == "atom_codes" {
			mk = codeList
		}
		if a[0].K == rt.Atom {
			if !isVar(a[1]) {
				es, p := properList(a[1])
				if !p {
					return nil, false
				}
				for _, e := range es { // an element that is not a character / code is a type error, not a failure
					if pred == "atom_chars" && !(e.K == rt.Atom && len([]rune(e.S)) == 1) || pred == "atom_codes" && !(e.K == rt.Int && e.I > 0 && e.I < 0xD800) {
						return nil, false
					}
				}
			}
			return filter(a, [][]*rt.Term{{a[0], mk([]rune(a[0].S))}}), true
		}
		if isVar(a[0]) {
			es, p := properList(a[1])
			if !p {
				return nil, false
			}
			var rs []rune
			for _, e := range es {
				switch {
				case pred == "atom_chars" && e.K == rt.Atom && len([]rune(e.S)) == 1:
					rs = append(rs, []rune(e.S)[0])
				case pred == "atom_codes" && e.K == rt.Int && e.I > 0 && e.I < 0xD800:
					rs = append(rs, rune(e.I))
				default:
					return nil, false
				}
			}
			return [][]*rt.Term{{atomOf(rs), a[1]}}, true
		}
		return nil, false
	case "char_code":
		if a[0].K == rt.Atom && len([]rune(a[0].S)) == 1 && (isVar(a[1]) || a[1].K == rt.Int) {
			return filter(a, [][]*rt.Term{{a[0], rt.I(int64([]rune(a[0].S)[0]))}}), true
		}
		if isVar(a[0]) && a[1].K == rt.Int && a[1].I > 0 && a[1].I < 0xD800 {
			return [][]*rt.Term{{rt.A(string(rune(a[1].I))), a[1]}}, true
		}
		return nil, false
	case "functor":
		if !isVar(a[0]) {
			name, ar := a[0], 0
			if a[0].K == rt.Comp {
				name, ar = rt.A(a[0].S), len(a[0].A)
			}
			return filter(a, [][]*rt.Term{{a[0], name, rt.I(int64(ar))}}), true
		}
		if a[2].K == rt.Int && a[2].I >= 0 && a[2].I <= 40 && (a[1].K == rt.Atom || a[2].I == 0 && (a[1].K == rt.Int || a[1].K == rt.Float)) {
			if a[2].I == 0 {
				return [][]*rt.Term{{a[1], a[1], a[2]}}, true
			}
			args := make([]*rt.Term, a[2].I)
			for i := range args {
				args[i] = rt.V(int64(500 + i))
			}
			return [][]*rt.Term{{rt.C(a[1].S, args...), a[1], a[2]}}, true
		}
		return nil, false
	case "arg":
		if a[0].K != rt.Int || a[1].K != rt.Comp || a[0].I < 0 {
			return nil, false
		}
		if a[0].I < 1 || int(a[0].I) > len(a[1].A) {
			return nil, true
		}
		return filter(a, [][]*rt.Term{{a[0], a[1], a[1].A[a[0].I-1]}}), true
	case "=..":
		if !isVar(a[0]) {
			var l *rt.Term
			if a[0].K == rt.Comp {
				l = rt.List(append([]*rt.Term{rt.A(a[0].S)}, a[0].A...), nil)
			} else {
				l = rt.ListOf(a[0])
			}
			if !isVar(a[1]) {
				if _, p := properList(a[1]); !p {
					return nil, false
				}
			}
			return filter(a, [][]*rt.Term{{a[0], l}}), true
		}
		es, p := properList(a[1])
		if !p || len(es) == 0 {
			return nil, false
		}
		if len(es) == 1 && es[0].K != rt.Comp && es[0].K != rt.Var {
			return [][]*rt.Term{{es[0], a[1]}}, true
		}
		if es[0].K != rt.Atom {
			return nil, false
		}
		return [][]*rt.Term{{rt.C(es[0].S, es[1:]...), a[1]}}, true
	case "append":
		if z, p := properList(a[2]); p {
			for _, k := range []int{0, 1} {
				if !isVar(a[k]) {
					if _, p := properList(a[k]); !p {
						return nil, false
					}
				}
			}
			var c [][]*rt.Term
			for i := 0; i <= len(z); i++ {
				c = append(c, []*rt.Term{rt.List(z[:i], nil), rt.List(z[i:], nil), a[2]})
			}
			return filter(a, c), true
		}
		if x, p := properList(a[0]); p && isVar(a[2]) {
			if y, p := properList(a[1]); p {
				return [][]*rt.Term{{a[0], a[1], rt.List(append(append([]*rt.Term{}, x...), y...), nil)}}, true
			}
			if isVar(a[1]) {
				return [][]*rt.Term{{a[0], a[1], rt.List(x, a[1])}}, true
			}
		}
		return nil, false
	case "length":
		if es, p := properList(a[0]); p {
			if !(isVar(a[1]) || a[1].K == rt.Int && a[1].I >= 0) {
				return nil, false
			}
			return filter(a, [][]*rt.Term{{a[0], rt.I(int64(len(es)))}}), true
		}
		if isVar(a[0]) && a[1].K == rt.Int && a[1].I >= 0 && a[1].I <= 8 {
			es := make([]*rt.Term, a[1].I)
			for i := range es {
				es[i] = rt.V(int64(500 + i))
			}
			return [][]*rt.Term{{rt.List(es, nil), a[1]}}, true
		}
		return nil, false
	case "between":
		if a[0].K != rt.Int || a[1].K != rt.Int || !(isVar(a[2]) || a[2].K == rt.Int) {
			return nil, false
		}
		lo, hi := a[0].I, a[1].I
		if hi >= lo && uint64(hi-lo) > 50 {
			return nil, false
		}
		var c [][]*rt.Term
		for x := lo; x <= hi; x++ {
			c = append(c, []*rt.Term{a[0], a[1], rt.I(x)})
			if x == math.MaxInt64 {
				break
			}
		}
		return filter(a, c), true
	case "nth0", "nth1":
		es, p := properList(a[1])
		if !p || !(isVar(a[0]) || a[0].K == rt.Int) {
			return nil, false
		}
		base := int64(0)
		if pred == "nth1" {
			base = 1
		}
		var c [][]*rt.Term
		for i, e := range es {
			c = append(c, []*rt.Term{rt.I(int64(i) + base), a[1], e})
		}
		return filter(a, c), true
	case "member":
		es, p := properList(a[1])
		if !p {
			return nil, false
		}
		var c [][]*rt.Term
		for _, e := range es {
			c = append(c, []*rt.Term{e, a[1]})
		}
		return filter(a, c), true
	case "select":
		es, p := properList(a[1])
		if !p {
			return nil, false
		}
		if !isVar(a[2]) {
			if _, p := properList(a[2]); !p {
				return nil, false
			}
		}
		var c [][]*rt.Term
		for i, e := range es {
			rest := append(append([]*rt.Term{}, es[:i]...), es[i+1:]...)
			c = append(c, []*rt.Term{e, a[1], rt.List(rest, nil)})
		}
		return filter(a, c), true
	case "succ":
		switch {
		case a[0].K == rt.Int && a[0].I >= 0 && a[0].I < math.MaxInt64 && (isVar(a[1]) || a[1].K == rt.Int && a[1].I >= 0):
			return filter(a, [][]*rt.Term{{a[0], rt.I(a[0].I + 1)}}), true
		case isVar(a[0]) && a[1].K == rt.Int && a[1].I > 0:
			return [][]*rt.Term{{rt.I(a[1].I - 1), a[1]}}, true
		}
		return nil, false
	}
	return nil, false
}

// ---- running the real call ------------------------------------------------------------------------------

func safeAtom(s string) bool {
	if s == "" || s == "[]" {
		return s == "[]"
	}
	for _, r := range s {
		if !(r >= 'a' && r <= 'z' || r >= '0' && r <= '9' || r == '_') {
			return false
		}
	}
	return s[0] >= 'a' && s[0] <= 'z'
}

// render writes the term; atoms that are not plainly alphanumeric are passed as '?' arguments
// (under double_quotes = atom a Go string is an atom), so the lexer's quoting is not on the path.
func render(t *rt.Term, names map[int64]string, args *[]interface{}, b *strings.Builder) {
	switch t.K {
	case rt.Var:
		if n, ok := names[t.I]; ok {
			b.WriteString(n)
		} else {
			fmt.Fprintf(b, "_F%d", t.I)
		}
	case rt.Atom:
		if safeAtom(t.S) || t.S == "[]" {
			b.WriteString(t.S)
		} else {
			b.WriteString(" ? ")
			*args = append(*args, t.S)
		}
	case rt.Int:
		b.WriteString(" ? ")
		*args = append(*args, t.I)
	case rt.Float:
		b.WriteString(" ? ")
		*args = append(*args, t.F)
	case rt.Comp:
		if t.Is(".", 2) {
			es, tail := t.Unlist()
			b.WriteString("[")
			for i, e := range es {
				if i > 0 {
					b.WriteString(",")
				}
				render(e, names, args, b)
			}
			if !tail.IsAtom("[]") {
				b.WriteString("|")
				render(tail, names, args, b)
			}
			b.WriteString("]")
			return
		}
		if safeAtom(t.S) {
			b.WriteString(t.S)
		} else {
			b.WriteString("'" + strings.ReplaceAll(t.S, "'", "\\'") + "'")
		}
		b.WriteString("(")
		for i, a := range t.A {
			if i > 0 {
				b.WriteString(",")
			}
			render(a, names, args, b)
		}
		b.WriteString(")")
	}
}

type outcome struct {
	answers   [][]*rt.Term
	truncated bool
	err       *sut.ErrInfo
}

func runReal(i *sut.I, pred string, a []*rt.Term) outcome {
	names := map[int64]string{}
	var vn []string
	for k, x := range a {
		if isVar(x) {
			names[x.I] = fmt.Sprintf("A%d", k)
		}
		vn = append(vn, fmt.Sprintf("R%d", k))
	}
	var b strings.Builder
	var args []interface{}
	// R_k = argument k after the call
	b.WriteString("G = '" + pred + "'(")
	for k, x := range a {
		if k > 0 {
			b.WriteString(",")
		}
		render(x, names, &args, &b)
	}
	b.WriteString("), call(G), G =.. [_|Rs], Rs = [" + strings.Join(vn, ",") + "].")
	res := i.Query(b.String(), vn, maxAnswers, 3_000_000, args...)
	return outcome{answers: res.Answers, truncated: res.Truncated, err: res.Err}
}

func key(tuple []*rt.Term) string {
	ss := make([]string, len(tuple))
	for i, t := range rt.Canon(tuple) {
		ss[i] = t.String()
	}
	return strings.Join(ss, " | ")
}

func multiset(ts [][]*rt.Term) map[string]int {
	m := map[string]int{}
	for _, t := range ts {
		m[key(t)]++
	}
	return m
}

func diffMS(want, got map[string]int, wn, gn string) string {
	var ds []string
	for k, n := range want {
		if got[k] != n {
			ds = append(ds, fmt.Sprintf("%s %d x [%s], %s %d", wn, n, k, gn, got[k]))
		}
	}
	for k, n := range got {
		if want[k] == 0 {
			ds = append(ds, fmt.Sprintf("%s %d x [%s], %s 0", gn, n, k, wn))
		}
	}
	sort.Strings(ds)
	return strings.Join(ds, "; ")
}

func newInterp() (*sut.I, error) {
	i := sut.New()
	if e := i.Exec(":- set_prolog_flag(double_quotes, atom).\n", 100000); e != nil {
		return nil, fmt.Errorf("infrastructure: %s", e)
	}
	return i, nil
}

type stats struct {
	asserted bool
	nAnswers int
	metaUsed bool
	sequel   bool
	tail     bool
	chain    bool
}

func check(c Case) (st stats, err error) {
	i, e := newInterp()
	if e != nil {
		return st, e
	}
	want, ok, errOK := reference3(c.Pred, c.Args)
	okMore := false
	if c.More != nil {
		_, okMore = reference(c.Pred, c.More)
	}
	if !ok && !okMore {
		return st, nil // outside the modes: nothing is asserted, nothing is run
	}
	got := runReal(i, c.Pred, c.Args)
	if ok {
		st.asserted = true
		st.nAnswers = len(want)
		if got.err != nil && errOK && got.err.Kind == "ball" {
			return st, nil
		}
		if got.err != nil {
			return st, fmt.Errorf("%s raised %s; the relation has %d matching tuples", rt.C(c.Pred, c.Args...), got.err, len(want))
		}
		if got.truncated {
			return st, fmt.Errorf("%s has more than %d answers; the relation has %d matching tuples", rt.C(c.Pred, c.Args...), maxAnswers, len(want))
		}
		if d := diffMS(multiset(want), multiset(got.answers), "relation", "real"); d != "" {
			return st, fmt.Errorf("%s: answers differ from the relation: %s", rt.C(c.Pred, c.Args...), d)
		}
	}
	if c.Tail && ok && got.err == nil {
		if err := checkTail(i, c, want, &st); err != nil {
			return st, err
		}
	}
	// metamorphic: the more instantiated call selects exactly the matching subset of the general call
	if c.More != nil && got.err == nil && !got.truncated {
		if okMore || ok {
			more := runReal(i, c.Pred, c.More)
			if more.err == nil && !more.truncated {
				st.metaUsed = true
				var sel [][]*rt.Term
				for _, a := range got.answers {
					m := true
					for k := range c.More {
						if !isVar(c.More[k]) && len(a[k].Vars(nil)) == 0 && !rt.Equal(c.More[k], a[k]) {
							m = false
						}
						if !isVar(c.More[k]) && len(a[k].Vars(nil)) > 0 {
							return st, nil // the general answer leaves this argument open: no simple subset relation
						}
					}
					if m {
						sel = append(sel, a)
					}
				}
				if d := diffMS(multiset(sel), multiset(more.answers), "matching subset of the general call", "instantiated call"); d != "" {
					return st, fmt.Errorf("%s vs %s: %s", rt.C(c.Pred, c.Args...), rt.C(c.Pred, c.More...), d)
				}
			} else if okMore && more.err != nil {
				return st, fmt.Errorf("%s raised %s", rt.C(c.Pred, c.More...), more.err)
			}
		}
	}
	if c.Then != nil {
		if err := checkSequel(i, c, &st); err != nil {
			return st, err
		}
	}
	if err := checkChain(i, c, &st); err != nil {
		return st, err
	}
	return st, nil
}

// checkChain: two calls in one query, a list the first call computed handed on (as the term the call left behind, not a
// copy) as a list input of the second: the second call's answers are the relation's for that value.
func checkChain(i *sut.I, c Case, st *stats) error {
	w1, ok := reference(c.Pred, c.Args)
	if !ok || len(w1) != 1 {
		return nil
	}
	out, in := -1, -1
	seen := map[int64]int{}
	for _, a := range c.Args {
		if isVar(a) {
			seen[a.I]++
		}
	}
	for k, a := range c.Args {
		if isVar(a) {
			if es, proper := properList(w1[0][k]); out < 0 && seen[a.I] == 1 && proper && len(es) > 0 && len(w1[0][k].Vars(nil)) == 0 {
				out = k
			}
		} else if _, proper := properList(a); in < 0 && proper && len(a.Vars(nil)) == 0 {
			in = k
		}
	}
	if out < 0 || in < 0 {
		return nil
	}
	second := make([]*rt.Term, len(c.Args))
	for k, a := range c.Args {
		switch {
		case k == in:
			second[k] = w1[0][out]
		case isVar(a):
			second[k] = rt.V(900 + a.I)
		default:
			second[k] = a
		}
	}
	w2, ok2, errOK := reference3(c.Pred, second)
	if !ok2 || errOK || len(w2) > maxAnswers-1 {
		return nil
	}
	names := map[int64]string{}
	var b strings.Builder
	var args []interface{}
	var outs []string
	for pass, call := range [][]*rt.Term{c.Args, second} {
		var as []string
		for k, x := range call {
			var ab strings.Builder
			switch {
			case pass == 1 && k == in:
				fmt.Fprintf(&ab, "X%d", c.Args[out].I)
			case isVar(x):
				fmt.Fprintf(&ab, "X%d", x.I)
				if pass == 1 {
					outs = append(outs, ab.String())
				}
			default:
				render(x, names, &args, &ab)
			}
			as = append(as, ab.String())
		}
		b.WriteString("'" + c.Pred + "'(" + strings.Join(as, ",") + "), ")
	}
	b.WriteString("Rs = [" + strings.Join(outs, ",") + "].")
	res := i.Query(b.String(), []string{"Rs"}, maxAnswers, 3_000_000, args...)
	if res.Err != nil {
		return fmt.Errorf("%s then %s on the list the first call left in argument %d (query %s) raised %s; the relation has %d answers", rt.C(c.Pred, c.Args...), rt.C(c.Pred, second...), out+1, b.String(), res.Err, len(w2))
	}
	var got, want [][]*rt.Term
	for _, a := range res.Answers {
		es, _ := a[0].Unlist()
		got = append(got, es)
	}
	for _, w := range w2 {
		var t []*rt.Term
		for k, x := range second {
			if isVar(x) {
				t = append(t, w[k])
			}
		}
		want = append(want, t)
	}
	if d := diffMS(multiset(want), multiset(got), "relation", "real"); d != "" {
		return fmt.Errorf("%s then %s on the list the first call left in argument %d (query %s): %s", rt.C(c.Pred, c.Args...), rt.C(c.Pred, second...), out+1, b.String(), d)
	}
	st.chain = true
	return nil
}

// checkTail: the same call written into the query text, its list arguments completed by bindings made before it.
func checkTail(i *sut.I, c Case, want [][]*rt.Term, st *stats) error {
	names := map[int64]string{}
	var b strings.Builder
	var args []interface{}
	var as []string
	rewritten := false
	tailOf := func(a *rt.Term) ([]*rt.Term, bool) {
		es, proper := properList(a)
		return es, !isVar(a) && proper && len(es) >= 2 && len(a.Vars(nil)) == 0
	}
	// first the bindings (their placeholders come first in the text), then the call
	for k, a := range c.Args {
		if es, ok := tailOf(a); ok {
			rewritten = true
			fmt.Fprintf(&b, "T%d = ", k)
			render(rt.List(es[1:], nil), names, &args, &b)
			b.WriteString(", ")
		}
	}
	for k, a := range c.Args {
		var ab strings.Builder
		switch es, ok := tailOf(a); {
		case isVar(a):
			fmt.Fprintf(&ab, "A%d", a.I)
		case ok:
			ab.WriteString("[")
			render(es[0], names, &args, &ab)
			fmt.Fprintf(&ab, "|T%d]", k)
		default:
			render(a, names, &args, &ab)
		}
		as = append(as, ab.String())
	}
	if !rewritten {
		return nil
	}
	// (placeholders are consumed in text order: the argument texts are used once, in the call; the values after the
	// call are read off a second term built from variables only)
	var outs []string
	for k, a := range c.Args {
		if isVar(a) {
			outs = append(outs, fmt.Sprintf("A%d", a.I))
		} else {
			outs = append(outs, fmt.Sprintf("_K%d", k))
		}
	}
	b.WriteString("'" + c.Pred + "'(" + strings.Join(as, ",") + "), Rs = [" + strings.Join(outs, ",") + "].")
	res := i.Query(b.String(), []string{"Rs"}, maxAnswers, 3_000_000, args...)
	if res.Err != nil {
		return fmt.Errorf("%s with its list arguments completed by earlier bindings ([E|T], T bound) raised %s; written out it has %d answers", rt.C(c.Pred, c.Args...), res.Err, len(want))
	}
	if len(res.Answers) != len(want) {
		return fmt.Errorf("%s with its list arguments completed by earlier bindings ([E|T], T bound) has %d answers; written out it has %d", rt.C(c.Pred, c.Args...), len(res.Answers), len(want))
	}
	st.tail = true
	return nil
}

// checkSequel: two calls in one query, the second after the first, sharing their equal list arguments as one
// term: the first call's answer is still the relation's when the second has run (no result aliases another).
func checkSequel(i *sut.I, c Case, st *stats) error {
	w1, ok1 := reference(c.Pred, c.Args)
	w2, ok2 := reference(c.Pred, c.Then)
	if !ok1 || !ok2 || len(w1) != 1 || len(w2) != 1 {
		return nil
	}
	names := map[int64]string{}
	var b strings.Builder
	var args []interface{}
	shared := map[int]string{}
	for k := range c.Args {
		es, proper := properList(c.Args[k])
		if proper && len(es) > 0 && len(c.Args[k].Vars(nil)) == 0 && rt.Equal(c.Args[k], c.Then[k]) {
			v := fmt.Sprintf("S%d", k)
			shared[k] = v
			switch c.Built {
			case "findall":
				fmt.Fprintf(&b, "findall(E%d, member(E%d, ", k, k)
				render(c.Args[k], names, &args, &b)
				fmt.Fprintf(&b, "), %s), ", v)
			case "univ":
				fmt.Fprintf(&b, "T%d =.. [f|", k)
				render(c.Args[k], names, &args, &b)
				fmt.Fprintf(&b, "], T%d =.. [_|%s], ", k, v)
			default:
				b.WriteString("copy_term(")
				render(c.Args[k], names, &args, &b)
				fmt.Fprintf(&b, ", %s), ", v)
			}
		}
	}
	if len(shared) == 0 {
		return nil
	}
	// the goals stand in the query text itself (a goal handed to call/1 is compiled again, which copies its
	// list arguments and so hides any sharing between the two calls)
	call := func(a []*rt.Term, pre string) {
		var as []string
		for k, x := range a {
			var ab strings.Builder
			switch {
			case shared[k] != "":
				ab.WriteString(shared[k])
			case isVar(x):
				fmt.Fprintf(&ab, "%s%d", pre, k)
			default:
				render(x, names, &args, &ab)
			}
			as = append(as, ab.String())
		}
		b.WriteString("'" + c.Pred + "'(" + strings.Join(as, ",") + "), ")
	}
	call(c.Args, "X")
	call(c.Then, "Y")
	outs := func(a []*rt.Term, pre string) string {
		var as []string
		for k, x := range a {
			switch {
			case shared[k] != "":
				as = append(as, shared[k])
			case isVar(x):
				as = append(as, fmt.Sprintf("%s%d", pre, k))
			default:
				as = append(as, "_") // a ground input: not observed
			}
		}
		return "[" + strings.Join(as, ",") + "]"
	}
	b.WriteString("R1 = " + outs(c.Args, "X") + ", R2 = " + outs(c.Then, "Y") + ".")
	res := i.Query(b.String(), []string{"R1", "R2"}, 3, 3_000_000, args...)
	if res.Err != nil || len(res.Answers) != 1 {
		return fmt.Errorf("%s: each call has one answer alone, together: %d answers, err %v", c, len(res.Answers), res.Err)
	}
	st.sequel = true
	r1, _ := res.Answers[0][0].Unlist()
	r2, _ := res.Answers[0][1].Unlist()
	same := func(got, want, call []*rt.Term) bool {
		for k := range call {
			if shared[k] == "" && !isVar(call[k]) {
				continue // ground input written as a placeholder: not observed
			}
			if key([]*rt.Term{got[k]}) != key([]*rt.Term{want[k]}) {
				return false
			}
		}
		return true
	}
	if len(r1) != len(c.Args) || !same(r1, w1[0], c.Args) {
		return fmt.Errorf("%s: after the second call the first call's arguments are %s, the relation's tuple is %s", c, rt.Strings(r1), rt.Strings(w1[0]))
	}
	if len(r2) != len(c.Then) || !same(r2, w2[0], c.Then) {
		return fmt.Errorf("%s: the second call's arguments are %s, the relation's tuple is %s", c, rt.Strings(r2), rt.Strings(w2[0]))
	}
	return nil
}

func init() { h.Reg("c16", func(c Case) error { _, err := check(c); return err }) }

// ---- generators -----------------------------------------------------------------------------------------

var alphabet = []rune{'a', 'b', 'é', '日', '😀', '\U0010FFFF', '\x7f'}

func u(t *rapid.T, n int, l string) int { return int(rapid.Uint64().Draw(t, l) % uint64(n)) }

// genArity: mostly 0-3, now and then around the sizes at which the engine changes its allocation path (8/9) or beyond.
func genArity(t *rapid.T) int {
	if u(t, 8, "wide") == 0 {
		return []int{7, 8, 9, 10, 16, 17, 33}[u(t, 7, "widear")]
	}
	return u(t, 4, "ar")
}

func genRunes(t *rapid.T, max int) []rune {
	n := u(t, max+1, "len")
	rs := make([]rune, n)
	for i := range rs {
		rs[i] = alphabet[u(t, len(alphabet), "ch")]
	}
	return rs
}

func genElem(t *rapid.T) *rt.Term {
	switch u(t, 8, "elem") {
	case 6: // elements that are lists themselves: [] as an element is not the end of the list
		return rt.A("[]")
	case 7:
		return []*rt.Term{rt.List([]*rt.Term{rt.A("a")}, nil), rt.List([]*rt.Term{rt.A("[]")}, nil), rt.List([]*rt.Term{rt.A("a"), rt.A("[]")}, nil)}[u(t, 3, "nested")]
	case 0:
		return rt.I(int64(u(t, 3, "i")))
	case 1:
		return rt.C("f", rt.A("a"))
	case 2:
		return rt.A("é")
	default:
		return rt.A(string(rune('a' + u(t, 3, "c"))))
	}
}

func genList(t *rapid.T, max int) []*rt.Term {
	n := u(t, max+1, "llen")
	es := make([]*rt.Term, n)
	for i := range es {
		es[i] = genElem(t)
	}
	return es
}

var edgeInts = []int64{0, 1, 2, 3, -1, -2, math.MaxInt64, math.MaxInt64 - 1, math.MaxInt64 - 2, math.MinInt64, math.MinInt64 + 1, math.MinInt64 + 2}

var preds = []string{"atom_length", "atom_concat", "sub_atom", "atom_chars", "atom_codes", "char_code", "functor", "arg", "=..", "append", "length", "between", "nth0", "nth1", "member", "select", "succ"}

// tuple draws a tuple of the relation (sometimes a near miss) for the predicate.
func tuple(t *rapid.T, pred string) []*rt.Term {
	switch pred {
	case "atom_length":
		rs := genRunes(t, 6)
		return []*rt.Term{atomOf(rs), rt.I(int64(len(rs)))}
	case "atom_concat":
		x, y := genRunes(t, 3), genRunes(t, 3)
		return []*rt.Term{atomOf(x), atomOf(y), atomOf(append(append([]rune{}, x...), y...))}
	case "sub_atom":
		rs := genRunes(t, 6)
		b := u(t, len(rs)+1, "b")
		l := u(t, len(rs)-b+1, "l")
		return []*rt.Term{atomOf(rs), rt.I(int64(b)), rt.I(int64(l)), rt.I(int64(len(rs) - b - l)), atomOf(rs[b : b+l])}
	case "atom_chars":
		rs := genRunes(t, 5)
		return []*rt.Term{atomOf(rs), charList(rs)}
	case "atom_codes":
		rs := genRunes(t, 5)
		if u(t, 8, "badcode") == 0 && len(rs) > 0 {
			l, _ := codeList(rs).Unlist()
			l[u(t, len(l), "where")] = rt.I([]int64{1<<32 + 97, 0xD800, -1, 0x110000}[u(t, 4, "bc")])
			return []*rt.Term{atomOf(rs), rt.List(l, nil)}
		}
		return []*rt.Term{atomOf(rs), codeList(rs)}
	case "char_code":
		r := alphabet[u(t, len(alphabet), "ch")]
		if u(t, 6, "badcode") == 0 { // codes that are no character codes: no tuple
			return []*rt.Term{rt.A(string(r)), rt.I([]int64{1<<32 + 97, 0xD800, -1, 0x110000, 0xDFFF, 1<<32 + 0x65E5}[u(t, 6, "bc")])}
		}
		return []*rt.Term{rt.A(string(r)), rt.I(int64(r))}
	case "functor":
		n := genArity(t)
		name := []string{"f", "é", "[]", "."}[u(t, 4, "name")]
		if n == 0 {
			if u(t, 3, "num") == 0 {
				return []*rt.Term{rt.I(7), rt.I(7), rt.I(0)}
			}
			return []*rt.Term{rt.A(name), rt.A(name), rt.I(0)}
		}
		args := make([]*rt.Term, n)
		for i := range args {
			args[i] = genElem(t)
		}
		return []*rt.Term{rt.C(name, args...), rt.A(name), rt.I(int64(n))}
	case "arg":
		n := 1 + genArity(t)
		args := make([]*rt.Term, n)
		for i := range args {
			args[i] = genElem(t)
		}
		k := u(t, n+2, "k") // 0 and n+1 are out of range
		var a *rt.Term = rt.A("none")
		if k >= 1 && k <= n {
			a = args[k-1]
		}
		return []*rt.Term{rt.I(int64(k)), rt.C("g", args...), a}
	case "=..":
		n := genArity(t)
		if n == 0 {
			x := genElem(t)
			if x.K == rt.Comp {
				x = rt.A("a")
			}
			return []*rt.Term{x, rt.ListOf(x)}
		}
		args := make([]*rt.Term, n)
		for i := range args {
			args[i] = genElem(t)
		}
		return []*rt.Term{rt.C("h", args...), rt.List(append([]*rt.Term{rt.A("h")}, args...), nil)}
	case "append":
		x, y := genList(t, 6), genList(t, 3)
		return []*rt.Term{rt.List(x, nil), rt.List(y, nil), rt.List(append(append([]*rt.Term{}, x...), y...), nil)}
	case "length":
		x := genList(t, 5)
		if u(t, 8, "long") == 0 {
			x = genList(t, 40)
		}
		return []*rt.Term{rt.List(x, nil), rt.I(int64(len(x)))}
	case "between":
		lo := edgeInts[u(t, len(edgeInts), "lo")]
		if u(t, 2, "small") == 0 {
			lo = int64(u(t, 7, "lo2")) - 3
		}
		span := int64(u(t, 5, "span"))
		if u(t, 10, "widespan") == 0 { // more answers than any small batch an implementation may hand out at once
			span = 30 + int64(u(t, 80, "span2"))
		}
		hi := lo + span
		if hi < lo { // wrapped
			hi = math.MaxInt64
		}
		x := lo + int64(u(t, int(span)+1, "x"))
		if x < lo {
			x = lo
		}
		return []*rt.Term{rt.I(lo), rt.I(hi), rt.I(x)}
	case "nth0", "nth1":
		x := genList(t, 4)
		if len(x) == 0 {
			x = []*rt.Term{rt.A("a")}
		}
		k := u(t, len(x), "k")
		base := 0
		if pred == "nth1" {
			base = 1
		}
		return []*rt.Term{rt.I(int64(k + base)), rt.List(x, nil), x[k]}
	case "member":
		x := genList(t, 4)
		if len(x) == 0 {
			return []*rt.Term{rt.A("a"), rt.Nil}
		}
		return []*rt.Term{x[u(t, len(x), "k")], rt.List(x, nil)}
	case "select":
		x := genList(t, 4)
		if len(x) == 0 {
			return []*rt.Term{rt.A("a"), rt.Nil, rt.Nil}
		}
		k := u(t, len(x), "k")
		rest := append(append([]*rt.Term{}, x[:k]...), x[k+1:]...)
		return []*rt.Term{x[k], rt.List(x, nil), rt.List(rest, nil)}
	default: // succ
		x := []int64{0, 1, 2, 41, math.MaxInt64 - 1, math.MaxInt64 - 2}[u(t, 6, "x")]
		return []*rt.Term{rt.I(x), rt.I(x + 1)}
	}
}

// nearMiss changes one argument of a true tuple to a value of the same type.
func nearMiss(t *rapid.T, tp []*rt.Term) []*rt.Term {
	out := append([]*rt.Term{}, tp...)
	k := u(t, len(out), "which")
	switch out[k].K {
	case rt.Int:
		out[k] = rt.I(out[k].I + int64(u(t, 3, "d")) - 1)
	case rt.Atom:
		out[k] = rt.A(out[k].S + string(alphabet[u(t, len(alphabet), "ch")]))
	case rt.Comp:
		if es, p := properList(out[k]); p {
			out[k] = rt.List(append(es, rt.A("zz")), nil)
		}
	}
	return out
}

func genCase() *rapid.Generator[Case] {
	return rapid.Custom(func(t *rapid.T) Case {
		pred := preds[u(t, len(preds), "pred")]
		tp := tuple(t, pred)
		if u(t, 5, "near") == 0 {
			tp = nearMiss(t, tp)
		}
		c := Case{Pred: pred}
		// an instantiation mask (redrawn up to 4 times until it is within the modes); More instantiates a superset
		for try := 0; try < 4; try++ {
			c = maskCase(t, pred, tp)
			if _, ok := reference(pred, c.Args); ok {
				break
			}
		}
		c.Tail = u(t, 4, "tail") == 3
		if u(t, 3, "sequel") == 0 {
			// a second tuple sharing one list argument with the first; the call mode is redrawn so that both calls
			// are deterministic: one argument free (the last, else the first), the others bound
			tp2 := tuple(t, pred)
			for _, free := range []int{len(tp) - 1, 0} {
				var lists []int
				for k := range tp {
					if es, ok := properList(tp[k]); ok && len(es) > 0 && k != free {
						lists = append(lists, k)
					}
				}
				if len(lists) == 0 || len(tp2) != len(tp) {
					continue
				}
				k := lists[u(t, len(lists), "sharedarg")]
				a1, a2 := append([]*rt.Term{}, tp...), append([]*rt.Term{}, tp2...)
				a2[k] = tp[k]
				a1[free], a2[free] = rt.V(int64(100+free)), rt.V(int64(200+free))
				w1, ok1 := reference(pred, a1)
				w2, ok2 := reference(pred, a2)
				if ok1 && ok2 && len(w1) == 1 && len(w2) == 1 {
					c.Args, c.More, c.Then = a1, nil, a2
					c.Built = []string{"findall", "univ", "copy"}[u(t, 3, "built")]
					break
				}
			}
		}
		return c
	})
}

func maskCase(t *rapid.T, pred string, tp []*rt.Term) Case {
	c := Case{Pred: pred}
	{
		c.Args = make([]*rt.Term, len(tp))
		c.More = make([]*rt.Term, len(tp))
		extra := false
		for k := range tp {
			free := u(t, 2, "free") == 0
			c.Args[k], c.More[k] = tp[k], tp[k]
			if free {
				c.Args[k] = rt.V(int64(100 + k))
				if u(t, 2, "bindinmore") == 0 {
					extra = true
				} else {
					c.More[k] = rt.V(int64(100 + k))
				}
			}
		}
		if !extra {
			c.More = nil
		}
		// one variable at two argument positions (nth0(N, [0,5,2,7], N))
		var free []int
		for k := range c.Args {
			if isVar(c.Args[k]) {
				free = append(free, k)
			}
		}
		if len(free) >= 2 && u(t, 8, "alias") == 7 {
			c.Args[free[1]] = c.Args[free[0]]
			c.More = nil
		}
		return c
	}
}

func nontrivial(c Case) bool {
	free := 0
	for _, a := range c.Args {
		if isVar(a) {
			free++
		}
		var multi func(t *rt.Term) bool
		multi = func(t *rt.Term) bool {
			if t.K == rt.Atom {
				for _, r := range t.S {
					if r > 127 {
						return true
					}
				}
			}
			if t.K == rt.Int && (t.I >= math.MaxInt64-2 || t.I <= math.MinInt64+2) {
				return true
			}
			for _, x := range t.A {
				if multi(x) {
					return true
				}
			}
			return false
		}
		if multi(a) {
			return true
		}
	}
	return free >= 2
}

// exhaustive part: all atoms up to length 3 over a 4-character alphabet x all masks for the atom predicates
func atomEnumeration(r *h.R, t *testing.T) {
	alpha := []rune{'a', 'é', '日', '😀'}
	var atoms [][]rune
	var rec func(cur []rune)
	rec = func(cur []rune) {
		atoms = append(atoms, append([]rune{}, cur...))
		if len(cur) == 3 {
			return
		}
		for _, ch := range alpha {
			rec(append(cur, ch))
		}
	}
	rec(nil)
	idx := 0
	for _, rs := range atoms {
		tuples := map[string][]*rt.Term{
			"atom_length": {atomOf(rs), rt.I(int64(len(rs)))},
			"atom_chars":  {atomOf(rs), charList(rs)},
			"atom_codes":  {atomOf(rs), codeList(rs)},
		}
		for b := 0; b <= len(rs); b++ {
			tuples[fmt.Sprintf("sub_atom:%d", b)] = []*rt.Term{atomOf(rs), rt.I(int64(b)), rt.I(int64(len(rs) - b)), rt.I(0), atomOf(rs[b:])}
			tuples[fmt.Sprintf("atom_concat:%d", b)] = []*rt.Term{atomOf(rs[:b]), atomOf(rs[b:]), atomOf(rs)}
		}
		var names []string
		for k := range tuples {
			names = append(names, k)
		}
		sort.Strings(names)
		for _, name := range names {
			tp := tuples[name]
			pred := strings.Split(name, ":")[0]
			for mask := 0; mask < 1<<len(tp); mask++ {
				idx++
				if !r.Mine(idx) {
					continue
				}
				c := Case{Pred: pred, Args: make([]*rt.Term, len(tp))}
				for k := range tp {
					c.Args[k] = tp[k]
					if mask&(1<<k) != 0 {
						c.Args[k] = rt.V(int64(100 + k))
					}
				}
				st, err := check(c)
				if !st.asserted {
					continue
				}
				r.Eval(1)
				if nontrivial(c) {
					r.NonTrivial(h.Hash(c), "enum:"+pred, func() any { return c.String() })
				}
				if err != nil {
					r.Fail(t, "c16", c, err)
				}
			}
		}
	}
	r.LabelN("enumerated_atom_cases", idx/r.NShards())
	r.Exhaustive("atom predicates: all atoms up to length 3 over {a, é, 日, 😀} x every split/offset x every instantiation mask within the modes")
}

func TestProp(t *testing.T) {
	r := h.Start(t, "C16")
	defer r.Finish(t)
	r.Rule("for each of the 17 listed predicates a rapid generator draws a tuple of its relation (atoms over {a, b, é, 日, 😀} up to length 6, lists up to length 5 of atoms/integers/compounds, integers near 0 and within 2 of the 64-bit limits; in 20% a one-argument near miss) and an instantiation mask (each argument either the ground value or unbound); calls outside the predicate's modes are not asserted. Oracles: (1) a reference enumerator per predicate written from its definition over rune slices and Go slices - the multiset of answers (full argument tuples after the call) must equal the multiset of matching tuples of the relation, no error, no more than 120 answers; (2) the metamorphic law: for a second call with further arguments instantiated, its answers must be exactly the answers of the general call that match. (3) two calls in one query: sharing their equal list arguments as one term (the first call's tuple is still the relation's after the second), and a second call taking as a list input the very list the first call computed (its answers are the relation's for that value); (4) the call written into the query text with list arguments completed by earlier bindings. In thorough mode additionally all atoms up to length 3 over a 4-character alphabet x all splits/offsets x all masks for atom_length, atom_chars, atom_codes, sub_atom, atom_concat. Non-ASCII atoms and all numbers are passed as '?' arguments (double_quotes = atom), answers are read structurally. Non-trivial: a multi-byte character, an integer within 2 of a 64-bit limit, or >= 2 unbound arguments. Distinct by case.",
		"reference enumerators in props/c16; answer order is not part of the property (multisets)")
	r.Regress(t)
	if r.Failed() {
		return
	}
	if !r.Quick() {
		atomEnumeration(r, t)
	}
	r.Rapid(t, "calls", r.Pick(50000, 2000000), func(t *rapid.T) {
		c := genCase().Draw(t, "case")
		st, err := check(c)
		r.Label("sampled")
		r.Label("pred:" + c.Pred)
		if !st.asserted && !st.metaUsed {
			r.Discard("outside_the_modes")
			return
		}
		r.Eval(1)
		if st.metaUsed {
			r.Label("metamorphic_pair")
		}
		if st.sequel {
			r.Label("two_calls_sharing_a_list_argument")
		}
		if st.tail {
			r.Label("list_arguments_completed_by_earlier_bindings")
		}
		if st.chain {
			r.Label("second_call_on_the_list_the_first_call_computed")
		}
		if st.asserted && st.nAnswers >= 2 {
			r.Label("answers>=2")
		}
		if nontrivial(c) {
			r.NonTrivial(h.Hash(c), c.Pred, func() any { return c.String() })
		}
		if err != nil {
			r.Fail(t, "c16", c, err)
		}
	})
}

func TestReplay(t *testing.T) { h.Replay(t, "C16") }
func TestKnown(t *testing.T)  { h.KnownRepro(t, "C16") }
