package c02

import (
	"fmt"

	"verif/internal/rt"
)

// subst is a triangular substitution over rt variables.
type subst map[int64]*rt.Term

func (s subst) walk(t *rt.Term) *rt.Term {
	for t.K == rt.Var {
		n, ok := s[t.I]
		if !ok {
			return t
		}
		t = n
	}
	return t
}

func (s subst) occurs(v int64, t *rt.Term) bool {
	t = s.walk(t)
	if t.K == rt.Var {
		return t.I == v
	}
	for _, a := range t.A {
		if s.occurs(v, a) {
			return true
		}
	}
	return false
}

// unify is Robinson unification. sto reports that a binding was needed that the occurs check rejects
// (the pair is then subject to occurs check: =/2 undefined, unify_with_occurs_check/2 must fail).
func (s subst) unify(a, b *rt.Term) (ok, sto bool) {
	a, b = s.walk(a), s.walk(b)
	if a.K == rt.Var && b.K == rt.Var && a.I == b.I {
		return true, false
	}
	if a.K == rt.Var {
		if s.occurs(a.I, b) {
			return false, true
		}
		s[a.I] = b
		return true, false
	}
	if b.K == rt.Var {
		if s.occurs(b.I, a) {
			return false, true
		}
		s[b.I] = a
		return true, false
	}
	if a.K != b.K {
		return false, false
	}
	switch a.K {
	case rt.Atom:
		return a.S == b.S, false
	case rt.Int:
		return a.I == b.I, false
	case rt.Float:
		return rt.Equal(a, b), false
	case rt.Comp:
		if a.S != b.S || len(a.A) != len(b.A) {
			return false, false
		}
		anySTO := false
		for i := range a.A {
			ok, sto := s.unify(a.A[i], b.A[i])
			if sto {
				// keep going to classify: a clash elsewhere still makes the pair non-unifiable,
				// but once STO is seen the pair is excluded for =/2 anyway
				anySTO = true
				continue
			}
			if !ok {
				return false, anySTO
			}
		}
		if anySTO {
			return false, true
		}
		return true, false
	}
	return false, false
}

// apply resolves t completely.
func (s subst) apply(t *rt.Term) *rt.Term {
	t = s.walk(t)
	if t.K != rt.Comp {
		return t
	}
	args := make([]*rt.Term, len(t.A))
	for i, a := range t.A {
		args[i] = s.apply(a)
	}
	return rt.C(t.S, args...)
}

// subsumes implements ISO subsumes_term(General, Specific):
// \+ \+ (term_variables(S, V1), unify_with_occurs_check(G, S), term_variables(V1, V2), V2 == V1).
func subsumes(g, sp *rt.Term) bool {
	s := subst{}
	v1 := sp.Vars(nil)
	ok, sto := s.unify(g, sp)
	if !ok || sto {
		return false
	}
	seen := map[int64]bool{}
	for _, v := range v1 {
		t := s.walk(rt.V(v))
		if t.K != rt.Var || t.I != v || seen[t.I] {
			return false
		}
		seen[t.I] = true
	}
	return true
}

// stoAny says whether the pair is subject to occurs check under *some* order of the Herbrand algorithm
// (ISO 7.3.3 quantifies over the orders; the engine has several: left to right in =/2, tail before
// elements when a clause head holds a partial list). It over-approximates: the congruence closure of
// a = b is built without stopping at clashes (a class may hold structures of different functors, all
// of them are decomposed against their like), and the pair counts as STO if the closure has a cycle -
// every equation any order can derive before it stops is in that closure, so every positive occurs
// check of any order is a cycle of it.
func stoAny(a, b *rt.Term) bool {
	type node struct {
		t      *rt.Term
		parent int
		comps  []int // compound members of the class (at the root)
	}
	var nodes []node
	varNode := map[int64]int{}
	var mk func(t *rt.Term) int
	sub := map[*rt.Term]int{}
	mk = func(t *rt.Term) int {
		if t.K == rt.Var {
			if n, ok := varNode[t.I]; ok {
				return n
			}
			nodes = append(nodes, node{t: t, parent: len(nodes)})
			varNode[t.I] = len(nodes) - 1
			return len(nodes) - 1
		}
		if n, ok := sub[t]; ok {
			return n
		}
		n := len(nodes)
		nodes = append(nodes, node{t: t, parent: n})
		sub[t] = n
		if t.K == rt.Comp {
			nodes[n].comps = []int{n}
			for _, x := range t.A {
				mk(x)
			}
		}
		return n
	}
	var find func(n int) int
	find = func(n int) int {
		for nodes[n].parent != n {
			nodes[n].parent = nodes[nodes[n].parent].parent
			n = nodes[n].parent
		}
		return n
	}
	type pair struct{ x, y int }
	work := []pair{{mk(a), mk(b)}}
	for len(work) > 0 {
		p := work[len(work)-1]
		work = work[:len(work)-1]
		rx, ry := find(p.x), find(p.y)
		if rx == ry {
			continue
		}
		for _, cx := range nodes[rx].comps {
			for _, cy := range nodes[ry].comps {
				tx, ty := nodes[cx].t, nodes[cy].t
				if tx.S == ty.S && len(tx.A) == len(ty.A) {
					for k := range tx.A {
						work = append(work, pair{mk(tx.A[k]), mk(ty.A[k])})
					}
				}
			}
		}
		nodes[ry].parent = rx
		nodes[rx].comps = append(nodes[rx].comps, nodes[ry].comps...)
	}
	// cycle among classes: class -> classes of the arguments of its compound members
	state := map[int]int{}
	var visit func(c int) bool
	visit = func(c int) bool {
		switch state[c] {
		case 1:
			return true
		case 2:
			return false
		}
		state[c] = 1
		for _, m := range nodes[c].comps {
			for _, x := range nodes[m].t.A {
				if visit(find(mk(x))) {
					return true
				}
			}
		}
		state[c] = 2
		return false
	}
	for n := range nodes {
		if visit(find(n)) {
			return true
		}
	}
	return false
}

// stoSelfTest checks stoAny on worked examples (run by shard 0).
func stoSelfTest() error {
	v := func(i int64) *rt.Term { return rt.V(i) }
	f := func(a ...*rt.Term) *rt.Term { return rt.C("f", a...) }
	g := func(a ...*rt.Term) *rt.Term { return rt.C("g", a...) }
	for k, e := range []struct {
		a, b *rt.Term
		want bool
	}{
		{f(v(0), v(1)), f(v(1), v(0)), false},
		{f(v(0)), f(g(v(0))), true},
		{f(rt.I(1), v(0)), f(rt.I(2), g(v(0))), true},             // clash first from the left, occurs check from the right
		{f(v(0), rt.I(1)), f(g(v(0)), rt.I(2)), true},             // the other way round
		{f(v(0), v(0), v(1)), f(f(v(1)), g(v(2)), g(v(0))), true}, // X=f(Y), X=g(Z) clash; Y=g(X) closes a cycle through the first binding
		{f(v(0), v(0)), f(rt.A("a"), rt.A("b")), false},
		{rt.List([]*rt.Term{rt.A("a"), v(0)}, v(1)), rt.List([]*rt.Term{rt.A("b"), v(2)}, rt.List([]*rt.Term{v(1)}, nil)), true}, // [a,X|T] vs [b,Y,T]: clash at the head, T = [T] in the tail
		{f(v(0), v(1)), f(g(v(1)), g(v(2))), false},
	} {
		if got := stoAny(e.a, e.b); got != e.want {
			return fmt.Errorf("stoAny example %d (%s vs %s): got %v", k, e.a, e.b, got)
		}
	}
	return nil
}
