package c02

import (
	"verif/internal/rt"
)

// subst is a triangular substitution over rt variables.
type subst map[int64]*rt.Term

func (s subst) walk(t *rt.Term) *rt.Term {
	for t.K == rt.Var {
		n, ok := s[t.I]
		if !ok {
			return t
		}
		t = n
	}
	return t
}

func (s subst) occurs(v int64, t *rt.Term) bool {
	t = s.walk(t)
	if t.K == rt.Var {
		return t.I == v
	}
	for _, a := range t.A {
		if s.occurs(v, a) {
			return true
		}
	}
	return false
}

// unify is Robinson unification. sto reports that a binding was needed that the occurs check rejects
// (the pair is then subject to occurs check: =/2 undefined, unify_with_occurs_check/2 must fail).
func (s subst) unify(a, b *rt.Term) (ok, sto bool) {
	a, b = s.walk(a), s.walk(b)
	if a.K == rt.Var && b.K == rt.Var && a.I == b.I {
		return true, false
	}
	if a.K == rt.Var {
		if s.occurs(a.I, b) {
			return false, true
		}
		s[a.I] = b
		return true, false
	}
	if b.K == rt.Var {
		if s.occurs(b.I, a) {
			return false, true
		}
		s[b.I] = a
		return true, false
	}
	if a.K != b.K {
		return false, false
	}
	switch a.K {
	case rt.Atom:
		return a.S == b.S, false
	case rt.Int:
		return a.I == b.I, false
	case rt.Float:
		return rt.Equal(a, b), false
	case rt.Comp:
		if a.S != b.S || len(a.A) != len(b.A) {
			return false, false
		}
		anySTO := false
		for i := range a.A {
			ok, sto := s.unify(a.A[i], b.A[i])
			if sto {
				// keep going to classify: a clash elsewhere still makes the pair non-unifiable,
				// but once STO is seen the pair is excluded for =/2 anyway
				anySTO = true
				continue
			}
			if !ok {
				return false, anySTO
			}
		}
		if anySTO {
			return false, true
		}
		return true, false
	}
	return false, false
}

// apply resolves t completely.
func (s subst) apply(t *rt.Term) *rt.Term {
	t = s.walk(t)
	if t.K != rt.Comp {
		return t
	}
	args := make([]*rt.Term, len(t.A))
	for i, a := range t.A {
		args[i] = s.apply(a)
	}
	return rt.C(t.S, args...)
}

// subsumes implements ISO subsumes_term(General, Specific):
// \+ \+ (term_variables(S, V1), unify_with_occurs_check(G, S), term_variables(V1, V2), V2 == V1).
func subsumes(g, sp *rt.Term) bool {
	s := subst{}
	v1 := sp.Vars(nil)
	ok, sto := s.unify(g, sp)
	if !ok || sto {
		return false
	}
	seen := map[int64]bool{}
	for _, v := range v1 {
		t := s.walk(rt.V(v))
		if t.K != rt.Var || t.I != v || seen[t.I] {
			return false
		}
		seen[t.I] = true
	}
	return true
}
