package c02

import (
	"context"
	"fmt"
	"strings"
	"testing"

	"github.com/ichiban/prolog/engine"
	"pgregory.net/rapid"

	"verif/internal/h"
	"verif/internal/recipe"
	"verif/internal/rt"
	"verif/internal/sut"
)

// Case: two abstract terms over the variable pool V0..V4 and, for each side, the sequence of
// construction-recipe choices consumed by its list nodes in traversal order.
type Case struct {
	A    *rt.Term `json:"a"`
	B    *rt.Term `json:"b"`
	RecA []int    `json:"rec_a"`
	RecB []int    `json:"rec_b"`
	DQ   string   `json:"dq"`   // double_quotes: chars | codes
	Mix  string   `json:"mix"`  // how the pair was drawn
	Go   bool     `json:"go"`   // build with the Go constructors and call engine.Unify directly
	Wide int      `json:"wide"` // > 0: stress case binding that many variables at once
}

const nPool = recipe.NPool

func (c Case) String() string {
	return fmt.Sprintf("%s  vs  %s  [recipes %v / %v, double_quotes=%s, %s, go=%v]", c.A, c.B, c.RecA, c.RecB, c.DQ, c.Mix, c.Go)
}

// build renders both sides; returns the prelude goals, the two texts and the recipes used.
func (c Case) build() (prelude []string, ta, tb string, used map[string]bool) {
	aux := 0
	used = map[string]bool{}
	ea := &recipe.Emitter{Rec: c.RecA, Aux: &aux, Prelude: &prelude, DQ: c.DQ, Used: used, Names: recipe.PoolNames()}
	ta = ea.Emit(c.A)
	eb := &recipe.Emitter{Rec: c.RecB, Aux: &aux, Prelude: &prelude, DQ: c.DQ, Used: used, Names: recipe.PoolNames()}
	tb = eb.Emit(c.B)
	return
}

func (c Case) nvars() int {
	if c.Wide > 0 {
		return c.Wide
	}
	return nPool
}

func pool(n int) []*rt.Term {
	vs := make([]*rt.Term, n)
	for i := range vs {
		vs[i] = rt.V(int64(i))
	}
	return vs
}

func newInterp(dq string) (*sut.I, error) {
	i := sut.New()
	if e := i.Exec(":- set_prolog_flag(double_quotes, "+dq+").\n", 100000); e != nil {
		return nil, fmt.Errorf("infrastructure: %s", e)
	}
	return i, nil
}

// checkText runs the text-recipe oracles.
func checkText(c Case) (used map[string]bool, class string, err error) {
	prelude, ta, tb, used := c.build()
	vs := pool(c.nvars())
	s := subst{}
	ok, sto := s.unify(c.A, c.B)
	stoOther := !sto && !ok && stoAny(c.A, c.B) // a clash in left-to-right order, an occurs check in another: =/2 is undefined
	i, e := newInterp(c.DQ)
	if e != nil {
		return used, "", e
	}
	vnames := make([]string, len(vs))
	for k := range vs {
		vnames[k] = fmt.Sprintf("V%d", k)
	}
	names := append([]string{"A", "B"}, vnames...)
	pre := strings.Join(append(append([]string{}, prelude...), "A = "+ta, "B = "+tb, "Keep = t("+strings.Join(vnames, ",")+")"), ", ")
	run := func(test string) sut.Result {
		return i.Query(pre+", "+test+".", names, 3, 2_000_000)
	}
	before := rt.Canon(append([]*rt.Term{c.A, c.B}, vs...))
	switch {
	case sto:
		class = "sto"
		r := run("unify_with_occurs_check(A, B)")
		if r.Err != nil {
			return used, class, fmt.Errorf("unify_with_occurs_check on a pair subject to occurs check raised %s", r.Err)
		}
		if len(r.Answers) != 0 {
			return used, class, fmt.Errorf("unify_with_occurs_check succeeded on a pair whose unifier is infinite: %s", rt.Strings(r.Answers[0]))
		}
		return used, class, nil
	case ok:
		class = "unifiable"
		want := make([]*rt.Term, 0, len(vs)+2)
		want = append(want, s.apply(c.A), s.apply(c.B))
		for _, v := range vs {
			want = append(want, s.apply(v))
		}
		want = rt.Canon(want)
		for _, test := range []string{"A = B, A == B", "B = A", "unify_with_occurs_check(A, B)", "unify_with_occurs_check(B, A), B == A"} {
			r := run(test)
			if r.Err != nil {
				return used, class, fmt.Errorf("%s raised %s", test, r.Err)
			}
			if len(r.Answers) != 1 {
				return used, class, fmt.Errorf("%s has %d answers on a unifiable pair (reference mgu gives %s)", test, len(r.Answers), rt.Strings(want))
			}
			if !rt.VariantTuple(r.Answers[0], want) {
				return used, class, fmt.Errorf("%s: bindings %s are not a variant of the most general unifier's %s", test, rt.Strings(r.Answers[0]), rt.Strings(want))
			}
		}
	default:
		class = "clash"
		tests := []string{"\\+ A = B", "(A = B ; true)", "\\+ unify_with_occurs_check(B, A)", "(B = A -> fail ; true)"}
		if stoOther {
			class = "clash_or_sto_by_order"
			tests = []string{"\\+ unify_with_occurs_check(B, A)", "\\+ unify_with_occurs_check(A, B)"}
		}
		for _, test := range tests {
			r := run(test)
			if r.Err != nil {
				return used, class, fmt.Errorf("%s raised %s", test, r.Err)
			}
			if len(r.Answers) != 1 {
				return used, class, fmt.Errorf("%s has %d answers on a pair that does not unify", test, len(r.Answers))
			}
			if !rt.VariantTuple(r.Answers[0], before) {
				return used, class, fmt.Errorf("%s: after the failed unification the terms are %s, before they were %s (a binding of the failed attempt is observable)", test, rt.Strings(r.Answers[0]), rt.Strings(before))
			}
		}
	}
	// clause-head unification: h(A) stored (its variables become clause-local), called as h(B)
	if !sto && !stoOther {
		ren := map[int64]int64{}
		for _, id := range c.A.Vars(nil) {
			ren[id] = id + 1000
		}
		a2 := c.A.Rename(ren)
		s2 := subst{}
		ok2, sto2 := s2.unify(a2, c.B)
		if !sto2 && !(!ok2 && stoAny(a2, c.B)) {
			r := i.Query(strings.Join(append(append([]string{}, prelude...), "A = "+ta, "B = "+tb, "assertz(hd(A))", "Keep = t("+strings.Join(vnames, ",")+")", "hd(B)"), ", ")+".", append([]string{"B"}, vnames...), 3, 2_000_000)
			if r.Err != nil {
				return used, class, fmt.Errorf("head unification raised %s", r.Err)
			}
			if ok2 != (len(r.Answers) == 1) {
				return used, class, fmt.Errorf("clause head hd(%s) called as hd(%s): %d answers, reference says unifiable=%v", c.A, c.B, len(r.Answers), ok2)
			}
			if ok2 {
				want := []*rt.Term{s2.apply(c.B)}
				for _, v := range vs {
					want = append(want, s2.apply(v))
				}
				if !rt.VariantTuple(r.Answers[0], rt.Canon(want)) {
					return used, class, fmt.Errorf("clause head hd(%s) called as hd(%s): bindings %s, reference %s", c.A, c.B, rt.Strings(r.Answers[0]), rt.Strings(rt.Canon(want)))
				}
			}
		}
		// subsumes_term/2
		wantSub := subsumes(c.A, c.B)
		r := run("subsumes_term(A, B)")
		if r.Err != nil {
			return used, class, fmt.Errorf("subsumes_term raised %s", r.Err)
		}
		if wantSub != (len(r.Answers) == 1) {
			return used, class, fmt.Errorf("subsumes_term(%s, %s) answered %v, reference %v", c.A, c.B, len(r.Answers) == 1, wantSub)
		}
		if wantSub && !rt.VariantTuple(r.Answers[0], before) {
			return used, class, fmt.Errorf("subsumes_term left bindings: %s", rt.Strings(r.Answers[0]))
		}
	}
	return used, class, nil
}

// checkGo builds both sides with the Go constructors and calls the engine's Unify /
// UnifyWithOccursCheck directly; the environment handed to the continuation is read structurally
// and (hook) checked for the red-black invariants.
func checkGo(c Case) (used map[string]bool, class string, err error) {
	used = map[string]bool{}
	vs := pool(c.nvars())
	s := subst{}
	ok, sto := s.unify(c.A, c.B)
	stoOther := !sto && !ok && stoAny(c.A, c.B)
	i := sut.New()
	for _, mode := range []string{"=", "=sym", "uwoc"} {
		vars := map[int64]engine.Variable{}
		ga := &recipe.GoBuilder{Rec: c.RecA, Vars: vars, Used: used}
		gb := &recipe.GoBuilder{Rec: c.RecB, Vars: vars, Used: used}
		ta, tb := ga.Build(c.A), gb.Build(c.B)
		pv := make([]engine.Term, len(vs))
		for k, v := range vs {
			pv[k] = ga.Build(v)
		}
		if (sto || stoOther) && mode != "uwoc" {
			continue
		}
		var got []*rt.Term
		var envErr error
		var size int
		k := func(env *engine.Env) *engine.Promise {
			tuple := []*rt.Term{sut.Convert(ta, env), sut.Convert(tb, env)}
			for _, v := range pv {
				tuple = append(tuple, sut.Convert(v, env))
			}
			got = rt.Canon(tuple)
			size, _, envErr = engine.VerifEnvCheck(env)
			return engine.Bool(true)
		}
		var p *engine.Promise
		switch mode {
		case "=":
			p = engine.Unify(&i.P.VM, ta, tb, k, nil)
		case "=sym":
			p = engine.Unify(&i.P.VM, tb, ta, k, nil)
		default:
			p = engine.UnifyWithOccursCheck(&i.P.VM, ta, tb, k, nil)
		}
		succ, ferr := p.Force(context.Background())
		if ferr != nil {
			return used, "", fmt.Errorf("[%s] raised %v", mode, ferr)
		}
		switch {
		case sto:
			class = "sto"
			if succ {
				return used, class, fmt.Errorf("UnifyWithOccursCheck succeeded on a pair whose unifier is infinite")
			}
		case ok:
			class = "unifiable"
			if !succ {
				return used, class, fmt.Errorf("[%s] failed on a unifiable pair", mode)
			}
			want := []*rt.Term{s.apply(c.A), s.apply(c.B)}
			for _, v := range vs {
				want = append(want, s.apply(v))
			}
			if !rt.VariantTuple(got, rt.Canon(want)) {
				return used, class, fmt.Errorf("[%s] bindings %s are not a variant of the most general unifier's %s", mode, rt.Strings(got), rt.Strings(rt.Canon(want)))
			}
			if !rt.Equal(got[0], got[1]) {
				return used, class, fmt.Errorf("[%s] after unification the two terms differ: %s vs %s", mode, got[0], got[1])
			}
			// Only the search-tree ordering is needed for lookups to be right; the colour invariants of the
			// tree (which this implementation does not maintain: balance() is applied to red nodes too) only
			// affect its depth and are not part of the property - they are counted, not asserted.
			if envErr != nil && strings.Contains(envErr.Error(), "out of order") {
				return used, class, fmt.Errorf("[%s] the environment after unification is not a search tree: %v (size %d)", mode, envErr, size)
			}
			if envErr != nil {
				used["(env tree colour invariants not maintained)"] = true
			}
		default:
			class = "clash"
			if succ {
				return used, class, fmt.Errorf("[%s] succeeded on a pair that does not unify: %s", mode, rt.Strings(got))
			}
		}
	}
	return used, class, nil
}

func check(c Case) (map[string]bool, string, error) {
	if c.Go {
		return checkGo(c)
	}
	return checkText(c)
}

func init() {
	h.Reg("c02", func(c Case) error { _, _, err := check(c); return err })
}

// derive makes a partially instantiated / partially generalised copy of t (unifiable with t by construction
// as long as the choices are consistent), optionally with one mutation deep inside or an occurs-check violation.
func derive(x *recipe.G, t *rt.Term, inst map[int64]*rt.Term, mutate *bool, stoAt *bool) *rt.Term {
	switch t.K {
	case rt.Var:
		if *stoAt && x.P(30, "stohere") {
			*stoAt = false
			return rt.C("f", t) // V against f(V)
		}
		if v, ok := inst[t.I]; ok {
			return v
		}
		if x.P(30, "instantiate") {
			v := x.Term(1)
			inst[t.I] = v
			return v
		}
		return t
	case rt.Comp:
		if x.P(12, "generalise") {
			return rt.V(int64(x.N(0, nPool-1, "gv")))
		}
		args := make([]*rt.Term, len(t.A))
		for i, a := range t.A {
			args[i] = derive(x, a, inst, mutate, stoAt)
		}
		return rt.C(t.S, args...)
	default:
		if *mutate && x.P(25, "mutatehere") {
			*mutate = false
			return rt.A("mutated")
		}
		if x.P(10, "generaliseleaf") {
			return rt.V(int64(x.N(0, nPool-1, "gv")))
		}
		return t
	}
}

func genCase() *rapid.Generator[Case] {
	return rapid.Custom(func(t *rapid.T) Case {
		x := &recipe.G{T: t}
		c := Case{DQ: []string{"chars", "codes"}[x.N(0, 1, "dq")]}
		x.DQ = c.DQ
		c.Go = x.P(35, "go")
		nrec := recipe.NRecipes
		if c.Go {
			nrec = recipe.NGoRecipes
		}
		for i, n := 0, x.N(1, 6, "nrec"); i < n; i++ {
			c.RecA = append(c.RecA, x.N(0, nrec-1, "ra"))
			c.RecB = append(c.RecB, x.N(0, nrec-1, "rb"))
		}
		if x.P(4, "wide") {
			// stress: bind 30..200 variables in one unification
			n := x.N(30, 200, "width")
			c.Wide, c.Mix = n, "wide"
			as, bs := make([]*rt.Term, n), make([]*rt.Term, n)
			for i := 0; i < n; i++ {
				as[i] = rt.V(int64(i))
				switch x.N(0, 3, "wk") {
				case 0:
					bs[i] = rt.I(int64(i))
				case 1:
					bs[i] = rt.V(int64(x.N(0, n-1, "alias")))
				case 2:
					bs[i] = rt.C("f", rt.V(int64((i+1)%n)))
				default:
					bs[i] = rt.ListOf(rt.I(int64(i)), rt.A("a"))
				}
			}
			if x.P(50, "aslist") {
				c.A, c.B = rt.List(as, nil), rt.List(bs, nil)
			} else {
				c.A, c.B = rt.C("w", as...), rt.C("w", bs...)
			}
			return c
		}
		c.A = x.Term(3)
		switch k := x.N(0, 9, "mix"); {
		case k < 2:
			c.Mix = "independent"
			c.B = x.Term(3)
		case k < 6:
			c.Mix = "derived_unifiable"
			f1, f2 := false, false
			c.B = derive(x, c.A, map[int64]*rt.Term{}, &f1, &f2)
		case k < 9:
			c.Mix = "derived_one_point_mutation"
			f1, f2 := true, false
			c.B = derive(x, c.A, map[int64]*rt.Term{}, &f1, &f2)
		default:
			c.Mix = "derived_occurs_check"
			f1, f2 := false, true
			c.B = derive(x, c.A, map[int64]*rt.Term{}, &f1, &f2)
		}
		if x.P(50, "swap") {
			c.A, c.B = c.B, c.A
		}
		return c
	})
}

func nontrivial(c Case, used map[string]bool) bool {
	if c.A.K != rt.Comp || c.B.K != rt.Comp {
		return false
	}
	shared := false
	va, vb := c.A.Vars(nil), c.B.Vars(nil)
	for _, a := range va {
		for _, b := range vb {
			if a == b {
				shared = true
			}
		}
	}
	if !shared && len(va) == len(uniq(c.A)) && len(vb) == len(uniq(c.B)) {
		// no sharing and no repetition
		rep := countVarOcc(c.A) > len(va) || countVarOcc(c.B) > len(vb)
		if !rep {
			return false
		}
	}
	return len(used) >= 2
}

func uniq(t *rt.Term) []int64 { return t.Vars(nil) }

func countVarOcc(t *rt.Term) int {
	if t.K == rt.Var {
		return 1
	}
	n := 0
	for _, a := range t.A {
		n += countVarOcc(a)
	}
	return n
}

func TestProp(t *testing.T) {
	r := h.Start(t, "C02")
	defer r.Finish(t)
	r.Rule("rapid-generated pairs of abstract terms of depth <= 4 over a shared variable pool V0..V4 (atoms incl. '', [], non-ASCII; integers; floats; compounds with the same name at several arities incl. './1 and './3; proper, partial and improper lists; string-like lists), drawn from a mixture: independent; B derived from A by partial instantiation/generalisation (unifiable, non-trivial mgu); such a copy with a one-point mutation deep inside (clash after many successful sub-unifications); a copy with a variable replaced by a term containing it (subject to occurs check); a stress class binding 30-200 variables at once. Every list node of each side is built through an independently chosen construction recipe - text: bracket/| notation, './2 compound, append/3 (pointer-tailed partial list), double-quoted literal, atom_chars/atom_codes, =../2, append over a string prefix, length/2 skeleton, findall/3, copy_term/2, under double_quotes chars and codes; Go: engine.List, PartialList (also over a string prefix), CharList, CodeList, Atom('.').Apply with engine.Unify / UnifyWithOccursCheck called directly. Oracle: reference Robinson unification with occurs check. Unifiable: =/2 succeeds, A == B, the tuple (A, B, V0..V4) is a variant of the mgu's, B = A and unify_with_occurs_check/2 give the same, clause-head unification hd(A) called as hd(B) gives the same bindings, (hook) the resulting environment is a valid search tree; clash: =/2 fails and \\+ A = B, (A = B ; true) leave every variable as before; occurs-check pairs: only unify_with_occurs_check/2 is asserted (it fails); subsumes_term/2 agrees with the reference matcher. Non-trivial: both sides compound, a variable shared between the sides or repeated, and at least two different recipes used. Distinct by case.",
		"reference unifier props/c02/refunify.go", "pairs subject to occurs check are excluded for =/2 (ISO leaves them undefined)")
	if r.Shard() == 0 {
		if err := stoSelfTest(); err != nil {
			t.Fatalf("infrastructure: %v", err)
		}
	}
	r.Regress(t)
	if r.Failed() {
		return
	}
	r.Rapid(t, "pairs", r.Pick(30000, 1500000), func(t *rapid.T) {
		c := genCase().Draw(t, "case")
		used, class, err := check(c)
		r.Label("sampled")
		r.Eval(1)
		r.Label("class:" + class)
		r.Label("mix:" + c.Mix)
		if c.Go {
			r.Label("go_constructors")
		}
		for k := range used {
			r.Label("recipe:" + k)
		}
		if nontrivial(c, used) || c.Wide > 0 {
			r.NonTrivial(h.Hash(c), class+":"+c.Mix, func() any { return c.String() })
		}
		if err != nil {
			r.Fail(t, "c02", c, err)
		}
	})
}

func TestReplay(t *testing.T) { h.Replay(t, "C02") }
func TestKnown(t *testing.T)  { h.KnownRepro(t, "C02") }
