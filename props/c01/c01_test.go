package c01

import (
	"testing"

	"pgregory.net/rapid"

	"verif/internal/diff"
	"verif/internal/gen"
	"verif/internal/h"
	"verif/internal/ref"
)

var feats = gen.Features{NestedDisj: true, TopDisj: true, Call: true, Lib: true, Strings: true, Deep: true, Flags: true}

func check(p *gen.Program) error {
	opts := diff.DefaultOpts()
	opts.PrefixOnBudget = true
	o := diff.Run(p, opts)
	if o.Discard != "" {
		return nil
	}
	return o.Err
}

func init() { h.Reg("c01", func(p *gen.Program) error { return check(p) }) }

func TestProp(t *testing.T) {
	r := h.Start(t, "C01")
	defer r.Finish(t)
	r.Rule("rapid-generated programs (1-4 predicates over a signature with the same name at several arities, 1-4 clauses each, heads and goals with nested compounds / proper and partial lists / double-quoted strings (the same lists in the compact representation) / repeated and singleton variables, conjunction, nested and top-level disjunction, call/1..4 with closures and variable goals, recursive library templates app/3 mem/2 nat/1 len/2; no cut, no if-then-else, no negation) and queries of 1-3 goals; 30% of the programs are loaded with assertz instead of Exec. Oracle: the reference SLD machine (internal/ref); compared: the sequence of answers (tuple of all query variables up to renaming; first 25), then exhaustion or the final error term (context masked); when the reference runs out of inferences after n >= 1 answers (an infinite or long search) the first n answers are compared and nothing else. Non-trivial: the reference run has >= 2 answers, or >= 1 answer after a backtrack into a predicate's remaining clauses; and a rule body with >= 2 goals was entered. Distinct by (program, query).",
		"the reference machine is correct (self-tested on ISO examples, DESIGN.md 2.3)",
		"cases whose reference run exceeds 4000 inferences / the work budget, performs a unification subject to occurs check, or calls a list as a goal are discarded and counted")
	if r.Shard() == 0 {
		if err := diff.OracleSelfTest(); err != nil {
			t.Fatalf("%v", err)
		}
		r.LabelN("oracle_self_test_examples", ref.NExamples())
	}
	r.Regress(t)
	if r.Failed() {
		return
	}
	r.Rapid(t, "programs", r.Pick(40000, 1500000), func(t *rapid.T) {
		p := gen.GenProgram(feats).Draw(t, "program")
		opts := diff.DefaultOpts()
		opts.PrefixOnBudget = true // cut-free, side-effect-free programs: the answers found within the budget are the first answers
		o := diff.Run(p, opts)
		r.Label("sampled")
		if p.DQ != "" || p.UnknownFail {
			r.Label("with_non_default_flags")
		}
		if p.Deep {
			r.Label("with_a_deep_recursion")
		}
		if o.Discard != "" {
			r.Discard(o.Discard)
			return
		}
		r.Eval(1)
		st := o.Ref.Stats
		if o.Prefix {
			r.Label("first_answers_of_a_search_beyond_the_budget")
		}
		if p.ViaAssert {
			r.Label("loaded_via_assertz")
		}
		if len(o.Ref.Answers) >= 2 {
			r.Label("answers>=2")
		}
		if o.Ref.Ball != nil {
			r.Label("ends_with_error")
		}
		if st.RuleBodies2 > 0 {
			r.Label("rule_body_with_2_goals_entered")
		}
		if len(o.Ref.Answers) >= 1 {
			r.Label("answers>=1")
		}
		if st.Backtracks > 0 {
			r.Label("backtracked_into_clauses")
		}
		if (len(o.Ref.Answers) >= 2 || (len(o.Ref.Answers) >= 1 && st.Backtracks > 0)) && st.RuleBodies2 > 0 {
			r.NonTrivial(h.Hash(p), "c01", func() any { return p.String() })
		}
		if o.Err != nil {
			r.Fail(t, "c01", p, o.Err)
		}
	})
}

func TestReplay(t *testing.T) { h.Replay(t, "C01") }
func TestKnown(t *testing.T)  { h.KnownRepro(t, "C01") }
