package c08

import (
	"fmt"
	"strings"
	"testing"

	"github.com/ichiban/prolog/engine"
	"pgregory.net/rapid"

	"verif/internal/h"
	"verif/internal/recipe"
	"verif/internal/rt"
	"verif/internal/sut"
)

// Case "triple": three abstract terms, each built through its own recipes; "sort": a list for
// sort/2, keysort/2 or setof/3.
type Case struct {
	Kind string     `json:"kind"` // triple | sort | keysort | setof
	T    []*rt.Term `json:"t"`
	Rec  [][]int    `json:"rec"`
	DQ   string     `json:"dq"`
	Go   bool       `json:"go,omitempty"`
}

func (c Case) String() string {
	ss := make([]string, len(c.T))
	for i, t := range c.T {
		ss[i] = t.String()
	}
	return fmt.Sprintf("%s [%s] recipes %v double_quotes=%s go=%v", c.Kind, strings.Join(ss, "  ;  "), c.Rec, c.DQ, c.Go)
}

func newInterp(dq string) (*sut.I, error) {
	i := sut.New()
	if e := i.Exec(":- set_prolog_flag(double_quotes, "+dq+").\n", 100000); e != nil {
		return nil, fmt.Errorf("infrastructure: %s", e)
	}
	return i, nil
}

func (c Case) rec(i int) []int {
	if i < len(c.Rec) {
		return c.Rec[i]
	}
	return nil
}

var ops = []struct {
	name string
	hold func(c int) bool
}{
	{"==", func(c int) bool { return c == 0 }},
	{"\\==", func(c int) bool { return c != 0 }},
	{"@<", func(c int) bool { return c < 0 }},
	{"@=<", func(c int) bool { return c <= 0 }},
	{"@>", func(c int) bool { return c > 0 }},
	{"@>=", func(c int) bool { return c >= 0 }},
}

func sym(c int) string {
	switch {
	case c < 0:
		return "<"
	case c > 0:
		return ">"
	}
	return "="
}

func checkTriple(c Case) (used map[string]bool, depth int, err error) {
	used = map[string]bool{}
	n := len(c.T)
	real := make([][]int, n)
	det := make([][]bool, n)
	for i := range real {
		real[i], det[i] = make([]int, n), make([]bool, n)
	}
	if c.Go {
		vars := map[int64]engine.Variable{}
		ts := make([]engine.Term, n)
		for i, t := range c.T {
			ts[i] = (&recipe.GoBuilder{Rec: c.rec(i), Vars: vars, Used: used}).Build(t)
		}
		// the same abstract term through other recipes
		alt := make([]engine.Term, n)
		for i, t := range c.T {
			alt[i] = (&recipe.GoBuilder{Rec: c.rec((i + 1) % n), Vars: vars, Used: used}).Build(t)
		}
		for i := range ts {
			for j := range ts {
				want, vd := rt.Compare(c.T[i], c.T[j])
				got := ts[i].Compare(ts[j], nil)
				real[i][j], det[i][j] = got, !vd
				if !vd && sym(got) != sym(want) {
					return used, 0, fmt.Errorf("Compare(%s, %s) = %s, the standard order says %s", c.T[i], c.T[j], sym(got), sym(want))
				}
				if !vd {
					if g2 := alt[i].Compare(ts[j], nil); sym(g2) != sym(got) {
						return used, 0, fmt.Errorf("%s compares %s with %s, but %s when built through other constructors", c.T[i], sym(got), c.T[j], sym(g2))
					}
				}
			}
		}
	} else {
		i, e := newInterp(c.DQ)
		if e != nil {
			return used, 0, e
		}
		var prelude []string
		aux := 0
		texts := make([]string, n)
		alts := make([]string, n)
		for k, t := range c.T {
			texts[k] = (&recipe.Emitter{Rec: c.rec(k), Aux: &aux, Prelude: &prelude, DQ: c.DQ, Used: used, Names: recipe.PoolNames()}).Emit(t)
		}
		for k, t := range c.T {
			alts[k] = (&recipe.Emitter{Rec: c.rec((k + 1) % n), Aux: &aux, Prelude: &prelude, DQ: c.DQ, Used: used, Names: recipe.PoolNames()}).Emit(t)
		}
		var goals []string
		goals = append(goals, prelude...)
		for k := range texts {
			goals = append(goals, fmt.Sprintf("T%d = %s", k, texts[k]), fmt.Sprintf("U%d = %s", k, alts[k]))
		}
		var names []string
		for a := 0; a < n; a++ {
			for b := 0; b < n; b++ {
				goals = append(goals, fmt.Sprintf("compare(O%d%d, T%d, T%d)", a, b, a, b), fmt.Sprintf("compare(P%d%d, U%d, T%d)", a, b, a, b))
				names = append(names, fmt.Sprintf("O%d%d", a, b), fmt.Sprintf("P%d%d", a, b))
				for oi, op := range ops {
					goals = append(goals, fmt.Sprintf("(T%d %s T%d -> R%d%d%d = y ; R%d%d%d = n)", a, op.name, b, a, b, oi, a, b, oi))
					names = append(names, fmt.Sprintf("R%d%d%d", a, b, oi))
				}
			}
		}
		res := i.Query(strings.Join(goals, ", ")+".", names, 2, 5_000_000)
		if res.Err != nil || len(res.Answers) != 1 {
			return used, 0, fmt.Errorf("comparison query failed: %v (%d answers)", res.Err, len(res.Answers))
		}
		ans := res.Answers[0]
		k := 0
		for a := 0; a < n; a++ {
			for b := 0; b < n; b++ {
				want, vd := rt.Compare(c.T[a], c.T[b])
				o, p := ans[k].S, ans[k+1].S
				k += 2
				got := map[string]int{"<": -1, "=": 0, ">": 1}[o]
				real[a][b], det[a][b] = got, !vd
				if !vd && o != sym(want) {
					return used, 0, fmt.Errorf("compare(O, %s, %s) gives O = %s, the standard order says %s", c.T[a], c.T[b], o, sym(want))
				}
				if !vd && p != o {
					return used, 0, fmt.Errorf("%s compares %s with %s, but %s when the same term is built through other recipes", c.T[a], o, c.T[b], p)
				}
				for _, op := range ops {
					holds := ans[k].S == "y"
					k++
					if !vd && holds != op.hold(want) {
						return used, 0, fmt.Errorf("%s %s %s is %v, the standard order (%s) says %v", c.T[a], op.name, c.T[b], holds, sym(want), op.hold(want))
					}
					if !vd && holds != op.hold(got) {
						return used, 0, fmt.Errorf("%s %s %s is %v but compare/3 says %s", c.T[a], op.name, c.T[b], holds, o)
					}
				}
			}
		}
	}
	// laws on the real outcomes (independent of the reference): '=' iff identical, antisymmetry, transitivity
	for a := 0; a < n; a++ {
		for b := 0; b < n; b++ {
			if !det[a][b] {
				continue
			}
			if (real[a][b] == 0) != rt.Equal(c.T[a], c.T[b]) {
				return used, 0, fmt.Errorf("%s and %s compare %s but structurally identical = %v", c.T[a], c.T[b], sym(real[a][b]), rt.Equal(c.T[a], c.T[b]))
			}
			if det[b][a] && sym(real[a][b]) != sym(-real[b][a]) {
				return used, 0, fmt.Errorf("antisymmetry: %s vs %s is %s but the converse is %s", c.T[a], c.T[b], sym(real[a][b]), sym(real[b][a]))
			}
			for d := 0; d < n; d++ {
				if det[b][d] && det[a][d] && real[a][b] <= 0 && real[b][d] <= 0 && real[a][d] > 0 {
					return used, 0, fmt.Errorf("transitivity: %s =< %s and %s =< %s but %s > %s", c.T[a], c.T[b], c.T[b], c.T[d], c.T[a], c.T[d])
				}
			}
		}
	}
	for _, t := range c.T {
		if d := t.Depth(); d > depth {
			depth = d
		}
	}
	return used, depth, nil
}

func checkSort(c Case) (used map[string]bool, st int, err error) {
	used = map[string]bool{}
	i, e := newInterp(c.DQ)
	if e != nil {
		return used, 0, e
	}
	var prelude []string
	aux := 0
	texts := make([]string, len(c.T))
	for k, t := range c.T {
		texts[k] = (&recipe.Emitter{Rec: c.rec(k % (len(c.Rec) + 1)), Aux: &aux, Prelude: &prelude, DQ: c.DQ, Used: used, Names: recipe.PoolNames()}).Emit(t)
	}
	list := "[" + strings.Join(texts, ",") + "]"
	pre := strings.Join(append(prelude, "L = "+list), ", ")
	switch c.Kind {
	case "sort", "setof":
		q := pre + ", sort(L, S)."
		if c.Kind == "setof" {
			q = pre + ", (setof(X, member(X, L), S) -> true ; S = [])."
		}
		res := i.Query(q, []string{"L", "S"}, 2, 5_000_000)
		if res.Err != nil || len(res.Answers) != 1 {
			return used, 0, fmt.Errorf("%s failed: %v (%d answers)", c.Kind, res.Err, len(res.Answers))
		}
		in, _ := res.Answers[0][0].Unlist()
		out, tail := res.Answers[0][1].Unlist()
		if !tail.IsAtom("[]") {
			return used, 0, fmt.Errorf("%s result is not a proper list: %s", c.Kind, res.Answers[0][1])
		}
		// every adjacent pair strictly ascending where determined; no duplicates under ==
		for k := 0; k+1 < len(out); k++ {
			cmp, vd := rt.Compare(out[k], out[k+1])
			if rt.Equal(out[k], out[k+1]) {
				return used, 0, fmt.Errorf("%s result has the duplicate %s at %d: %s", c.Kind, out[k], k+1, rt.Strings(out))
			}
			if !vd && cmp >= 0 {
				return used, 0, fmt.Errorf("%s result is not ascending at %d: %s then %s (full: %s)", c.Kind, k+1, out[k], out[k+1], rt.Strings(out))
			}
		}
		// same set of elements under ==
		for _, x := range in {
			found := false
			for _, y := range out {
				found = found || rt.Equal(x, y)
			}
			if !found {
				return used, 0, fmt.Errorf("%s lost the element %s (input %s, output %s)", c.Kind, x, rt.Strings(in), rt.Strings(out))
			}
		}
		for _, y := range out {
			found := false
			for _, x := range in {
				found = found || rt.Equal(x, y)
			}
			if !found {
				return used, 0, fmt.Errorf("%s invented the element %s (input %s, output %s)", c.Kind, y, rt.Strings(in), rt.Strings(out))
			}
		}
		// variables first
		seenNonVar := false
		for _, y := range out {
			if y.K != rt.Var {
				seenNonVar = true
			} else if seenNonVar {
				return used, 0, fmt.Errorf("%s places a variable after a non-variable: %s", c.Kind, rt.Strings(out))
			}
		}
		dups := len(in) - len(out)
		return used, dups, nil
	case "keysort":
		// pairs K-V where V = position tag
		res := i.Query(pre+", keysort(L, S).", []string{"L", "S"}, 2, 5_000_000)
		if res.Err != nil || len(res.Answers) != 1 {
			return used, 0, fmt.Errorf("keysort failed: %v (%d answers)", res.Err, len(res.Answers))
		}
		in, _ := res.Answers[0][0].Unlist()
		out, _ := res.Answers[0][1].Unlist()
		if len(in) != len(out) {
			return used, 0, fmt.Errorf("keysort changed the length: %d -> %d", len(in), len(out))
		}
		// permutation: every input pair (with its unique tag) appears exactly once
		pos := func(p *rt.Term) int64 { return p.A[1].I }
		seen := map[int64]bool{}
		for _, p := range out {
			if !p.Is("-", 2) || p.A[1].K != rt.Int || seen[pos(p)] {
				return used, 0, fmt.Errorf("keysort output is not a permutation of the input: %s", rt.Strings(out))
			}
			seen[pos(p)] = true
			if int(pos(p)) >= len(in) || !rt.Equal(in[pos(p)], p) {
				return used, 0, fmt.Errorf("keysort output pair %s is not the input pair at its position", p)
			}
		}
		equalKeys := 0
		for k := 0; k+1 < len(out); k++ {
			cmp, vd := rt.Compare(out[k].A[0], out[k+1].A[0])
			if vd {
				continue
			}
			if cmp > 0 {
				return used, 0, fmt.Errorf("keysort keys are not non-decreasing at %d: %s then %s", k+1, out[k], out[k+1])
			}
			if cmp == 0 {
				equalKeys++
				if pos(out[k]) > pos(out[k+1]) {
					return used, 0, fmt.Errorf("keysort is not stable: %s (input position %d) comes before %s (input position %d)", out[k], pos(out[k]), out[k+1], pos(out[k+1]))
				}
			}
		}
		return used, equalKeys, nil
	}
	return used, 0, fmt.Errorf("infrastructure: kind %q", c.Kind)
}

func check(c Case) (map[string]bool, int, error) {
	if c.Kind == "triple" {
		return checkTriple(c)
	}
	return checkSort(c)
}

func init() {
	h.Reg("c08", func(c Case) error { _, _, err := check(c); return err })
}

// ---- generators -----------------------------------------------------------------------------------------

// near makes a term that differs from t in one place only (arity, name, k-th argument, numeric type).
func near(x *recipe.G, t *rt.Term) *rt.Term {
	// a list of one-character atoms against the list of their codes (and back): the same text in the two string kinds
	if es, tail := t.Unlist(); len(es) > 0 && tail.IsAtom("[]") && x.P(60, "otherkind") {
		out := make([]*rt.Term, len(es))
		ok := true
		for i, e := range es {
			switch {
			case e.K == rt.Atom && len([]rune(e.S)) == 1:
				out[i] = rt.I(int64([]rune(e.S)[0]))
			case e.K == rt.Int && e.I > 32 && e.I < 0x10000:
				out[i] = rt.A(string(rune(e.I)))
			default:
				ok = false
			}
		}
		if ok {
			return rt.List(out, nil)
		}
	}
	switch t.K {
	case rt.Comp:
		switch x.N(0, 4, "near") {
		case 0: // other arity
			return rt.C(t.S, append(append([]*rt.Term{}, t.A...), x.Atomic())...)
		case 1: // other name
			return rt.C(t.S+"a", t.A...)
		case 2, 3: // one argument
			k := x.N(0, len(t.A)-1, "which")
			args := append([]*rt.Term{}, t.A...)
			args[k] = near(x, args[k])
			return rt.C(t.S, args...)
		}
		return t
	case rt.Int:
		if x.P(50, "tofloat") {
			return rt.F(float64(t.I)) // numerically equal integer and float
		}
		return rt.I(t.I + 1)
	case rt.Float:
		return rt.I(int64(t.F))
	case rt.Atom:
		if x.P(50, "prefix") {
			return rt.A(t.S + "a") // a proper prefix relation
		}
		return rt.A("é" + t.S)
	}
	return x.Term(1)
}

func genTriple() *rapid.Generator[Case] {
	return rapid.Custom(func(t *rapid.T) Case {
		x := &recipe.G{T: t}
		c := Case{Kind: "triple", DQ: []string{"chars", "codes"}[x.N(0, 1, "dq")]}
		x.DQ = c.DQ
		c.Go = x.P(35, "go")
		nrec := recipe.NRecipes
		if c.Go {
			nrec = recipe.NGoRecipes
		}
		a := x.Term(3)
		var b, d *rt.Term
		switch x.N(0, 3, "rel") {
		case 0:
			b, d = x.Term(3), x.Term(3)
		case 1:
			b, d = near(x, a), x.Term(2)
		case 2:
			b = near(x, a)
			d = near(x, b)
		default:
			b, d = a, near(x, a) // an identical pair
		}
		c.T = []*rt.Term{a, b, d}
		for k := 0; k < 3; k++ {
			var r []int
			for i, n := 0, x.N(1, 5, "nrec"); i < n; i++ {
				r = append(r, x.N(0, nrec-1, "r"))
			}
			c.Rec = append(c.Rec, r)
		}
		return c
	})
}

func genSort() *rapid.Generator[Case] {
	return rapid.Custom(func(t *rapid.T) Case {
		x := &recipe.G{T: t}
		c := Case{Kind: []string{"sort", "keysort", "keysort", "setof"}[x.N(0, 3, "kind")], DQ: []string{"chars", "codes"}[x.N(0, 1, "dq")]}
		x.DQ = c.DQ
		n := x.N(0, 40, "len")
		// few distinct values so that duplicates / equal keys are frequent
		nk := x.N(1, 6, "nkeys")
		keys := make([]*rt.Term, nk)
		for i := range keys {
			keys[i] = x.Term(2)
			if c.Kind == "setof" {
				// ground elements: setof copies the solutions, so variables would be renamed
				for len(keys[i].Vars(nil)) > 0 {
					keys[i] = x.Atomic()
				}
			}
		}
		for i := 0; i < n; i++ {
			k := keys[x.N(0, nk-1, "key")]
			if x.P(15, "nearkey") && c.Kind != "setof" {
				k = near(x, k)
			}
			if c.Kind == "keysort" {
				c.T = append(c.T, rt.C("-", k, rt.I(int64(i))))
			} else {
				c.T = append(c.T, k)
			}
		}
		for k := 0; k < 3; k++ {
			var r []int
			for i, m := 0, x.N(1, 5, "nrec"); i < m; i++ {
				r = append(r, x.N(0, recipe.NRecipes-1, "r"))
			}
			c.Rec = append(c.Rec, r)
		}
		return c
	})
}

func TestProp(t *testing.T) {
	r := h.Start(t, "C08")
	defer r.Finish(t)
	r.Rule("(a) rapid-generated triples of terms (the C02 term generator: variables, integers and floats incl. numerically equal pairs, atoms ordered by text incl. non-ASCII and prefixes, compounds differing only in arity / name / one argument, lists in every representation), related by construction (independent, one-place neighbours, identical pair), each built through its own construction recipes (text recipes under double_quotes chars/codes, or Go constructors with Term.Compare called directly), all 9 ordered pairs compared with compare/3, ==, \\==, @<, @=<, @>, @>=; (b) rapid-generated lists of 0-40 elements over 1-6 distinct keys (so duplicates and equal keys are frequent and lists exceed the 12-element threshold below which Go's sort.Slice is stable) for sort/2, keysort/2 (values tag the input position) and setof/3 over member/2. Oracle: a reference standard-order compare (Var < Float < Integer < Atom < Compound; compounds by arity, name, arguments) that also reports whether a decision hinged on two distinct unbound variables - every assertion is made only when it did not; all operators agree with it and with each other; the same abstract term built through other recipes compares identically; directly on the real outcomes: '=' iff structurally identical, antisymmetry, transitivity; sort/2 and setof/3: strictly ascending, duplicate-free, same element set, variables first; keysort/2: permutation, keys non-decreasing, equal keys in input order. Non-trivial: (a) a decision needing >= 2 levels of descent or two different recipes; (b) input with duplicates / equal keys and length >= 13. Distinct by case.",
		"reference compare in internal/rt", "-0.0 is not generated (whether -0.0 and 0.0 are identical is not fixed by the property)")
	r.Regress(t)
	if r.Failed() {
		return
	}
	r.Rapid(t, "triples", r.Pick(12000, 600000), func(t *rapid.T) {
		c := genTriple().Draw(t, "case")
		used, depth, err := check(c)
		r.Label("sampled_triple")
		r.Eval(9)
		for k := range used {
			r.Label("recipe:" + k)
		}
		if depth >= 3 || len(used) >= 2 {
			r.NonTrivial(h.Hash(c), "triple", func() any { return c.String() })
		}
		if err != nil {
			r.Fail(t, "c08", c, err)
		}
	})
	r.Rapid(t, "sorts", r.Pick(12000, 600000), func(t *rapid.T) {
		c := genSort().Draw(t, "case")
		_, dups, err := check(c)
		r.Label("sampled_" + c.Kind)
		r.Eval(1)
		if dups > 0 && len(c.T) >= 13 {
			r.NonTrivial(h.Hash(c), c.Kind, func() any { return c.String() })
		}
		if err != nil {
			r.Fail(t, "c08", c, err)
		}
	})
}

func TestReplay(t *testing.T) { h.Replay(t, "C08") }
func TestKnown(t *testing.T)  { h.KnownRepro(t, "C08") }
