// Package h is the shard-side harness shared by every property package: tier and shard
// parameters, counters for evidence, known-finding bookkeeping, failure capture (the shrunk
// *case*, not the rapid bit stream), replay of saved cases, and the result file the driver merges.
package h

import (
	"bufio"
	"encoding/binary"
	"encoding/json"
	"flag"
	"fmt"
	"hash/fnv"
	"os"
	"path/filepath"
	"sort"
	"strconv"
	"strings"
	"sync"
	"testing"
	"time"

	"pgregory.net/rapid"
)

// Runner re-executes one saved case. nil = the property held on the case.
type Runner func(raw json.RawMessage) error

var (
	regMu   sync.Mutex
	runners = map[string]Runner{}
)

// Register makes a case runner known under the sub-check's name (used by replay, regress and known-finding repro).
func Register(check string, r Runner) {
	regMu.Lock()
	defer regMu.Unlock()
	runners[check] = r
}

// Reg registers a typed runner.
func Reg[C any](check string, run func(c C) error) {
	Register(check, func(raw json.RawMessage) error {
		var c C
		if err := json.Unmarshal(raw, &c); err != nil {
			return fmt.Errorf("replay: cannot decode case: %w", err)
		}
		return run(c)
	})
}

// Failure is one violation found by a shard.
type Failure struct {
	Property string          `json:"property"`
	Check    string          `json:"check"`
	Message  string          `json:"message"`
	Case     json.RawMessage `json:"case"`
	Seed     uint64          `json:"seed"`
	Shard    int             `json:"shard"`
}

// Result is what a shard reports to the driver.
type Result struct {
	Property    string            `json:"property"`
	Tier        string            `json:"tier"`
	Seed        uint64            `json:"seed"`
	Shard       int               `json:"shard"`
	NShards     int               `json:"nshards"`
	Evaluations int64             `json:"evaluations"`
	NonTrivial  int64             `json:"nontrivial_local"`
	Classes     map[string]int64  `json:"classes"`
	Discards    map[string]int64  `json:"discards"`
	Known       map[string]int64  `json:"known"`
	Samples     []json.RawMessage `json:"samples"`
	Failures    []Failure         `json:"failures"`
	Notes       []string          `json:"notes"`
	Exhaustive  map[string]bool   `json:"exhaustive"`
	Completed   bool              `json:"completed"`
	Rule        string            `json:"rule"`
	Assumptions []string          `json:"assumptions"`
}

// R is the per-process run state.
type R struct {
	mu      sync.Mutex
	res     Result
	hashes  map[uint64]struct{}
	known   map[string]bool // listed known findings (slug)
	fails   map[string]*Failure
	maxSamp int
	sampleN map[string]int
}

func envInt(name string, def int) int {
	if v, err := strconv.Atoi(os.Getenv(name)); err == nil {
		return v
	}
	return def
}

// Root returns /verif (the directory holding KNOWN_FINDINGS.txt), from VERIF_ROOT or by walking up.
func Root() string {
	if r := os.Getenv("VERIF_ROOT"); r != "" {
		return r
	}
	d, _ := os.Getwd()
	for i := 0; i < 6; i++ {
		if _, err := os.Stat(filepath.Join(d, "KNOWN_FINDINGS.txt")); err == nil {
			return d
		}
		d = filepath.Dir(d)
	}
	return "/verif"
}

// Start reads the shard parameters.
func Start(t *testing.T, id string) *R {
	seed, _ := strconv.ParseUint(os.Getenv("VERIF_SEED"), 10, 64)
	tier := os.Getenv("VERIF_TIER")
	if tier == "" {
		tier = "quick"
	}
	r := &R{
		res: Result{
			Property: id, Tier: tier, Seed: seed,
			Shard: envInt("VERIF_SHARD", 0), NShards: envInt("VERIF_NSHARDS", 1),
			Classes: map[string]int64{}, Discards: map[string]int64{}, Known: map[string]int64{},
			Exhaustive: map[string]bool{},
		},
		hashes:  map[uint64]struct{}{},
		known:   map[string]bool{},
		fails:   map[string]*Failure{},
		maxSamp: 6,
		sampleN: map[string]int{},
	}
	for _, k := range LoadKnown(Root()) {
		if k.Property == id && k.Kind == "known" {
			r.known[k.ID] = true
		}
	}
	return r
}

// KnownLine is one line of KNOWN_FINDINGS.txt.
type KnownLine struct {
	Kind     string // known | fixed
	Property string
	ID       string
	What     string
	Raw      string
}

// LoadKnown parses KNOWN_FINDINGS.txt (never written at run time).
func LoadKnown(root string) []KnownLine {
	f, err := os.Open(filepath.Join(root, "KNOWN_FINDINGS.txt"))
	if err != nil {
		return nil
	}
	defer f.Close()
	var out []KnownLine
	sc := bufio.NewScanner(f)
	sc.Buffer(make([]byte, 1<<20), 1<<20)
	for sc.Scan() {
		line := strings.TrimSpace(sc.Text())
		var kind string
		switch {
		case strings.HasPrefix(line, "known:"):
			kind = "known"
		case strings.HasPrefix(line, "fixed:"):
			kind = "fixed"
		default:
			continue
		}
		k := KnownLine{Kind: kind, Raw: line}
		rest := strings.TrimSpace(line[6:])
		for _, f := range strings.Fields(rest) {
			if strings.HasPrefix(f, "property=") {
				k.Property = f[9:]
			}
			if strings.HasPrefix(f, "id=") {
				k.ID = f[3:]
			}
		}
		if i := strings.Index(rest, "what="); i >= 0 {
			k.What = rest[i+5:]
		}
		out = append(out, k)
	}
	return out
}

func (r *R) Tier() string    { return r.res.Tier }
func (r *R) Quick() bool     { return r.res.Tier != "thorough" }
func (r *R) Shard() int      { return r.res.Shard }
func (r *R) NShards() int    { return r.res.NShards }
func (r *R) Seed() uint64    { return r.res.Seed }
func (r *R) ID() string      { return r.res.Property }
func (r *R) Mine(i int) bool { return i%r.res.NShards == r.res.Shard }

// Pick returns q in the quick tier and th in the thorough tier.
func (r *R) Pick(q, th int) int {
	if r.Quick() {
		return q
	}
	return th
}

// PerShard splits a total case count over the shards (rounded up, at least 1).
func (r *R) PerShard(total int) int {
	n := (total + r.res.NShards - 1) / r.res.NShards
	if n < 1 {
		n = 1
	}
	return n
}

// Eval counts executions against the real interpreter.
func (r *R) Eval(n int) {
	r.mu.Lock()
	r.res.Evaluations += int64(n)
	r.mu.Unlock()
}

// Label adds to the class histogram.
func (r *R) Label(name string) {
	r.mu.Lock()
	r.res.Classes[name]++
	r.mu.Unlock()
}

// LabelN adds n to the class histogram.
func (r *R) LabelN(name string, n int) {
	r.mu.Lock()
	r.res.Classes[name] += int64(n)
	r.mu.Unlock()
}

// Discard counts a generated case that was not executed/compared, by reason.
func (r *R) Discard(reason string) {
	r.mu.Lock()
	r.res.Discards[reason]++
	r.mu.Unlock()
}

// Note adds a free-text note to the evidence.
func (r *R) Note(format string, a ...any) {
	r.mu.Lock()
	r.res.Notes = append(r.res.Notes, fmt.Sprintf(format, a...))
	r.mu.Unlock()
}

// Rule sets the evidence's description of how cases are generated and what makes one non-trivial.
func (r *R) Rule(rule string, assumptions ...string) {
	r.mu.Lock()
	r.res.Rule, r.res.Assumptions = rule, assumptions
	r.mu.Unlock()
}

// Exhaustive records that the named sub-space was enumerated completely (over all shards).
func (r *R) Exhaustive(name string) {
	r.mu.Lock()
	r.res.Exhaustive[name] = true
	r.mu.Unlock()
}

// Hash hashes the given parts (a case identity).
func Hash(parts ...any) uint64 {
	hh := fnv.New64a()
	for _, p := range parts {
		switch v := p.(type) {
		case string:
			hh.Write([]byte(v))
		case []byte:
			hh.Write(v)
		default:
			b, _ := json.Marshal(v)
			hh.Write(b)
		}
		hh.Write([]byte{0})
	}
	return hh.Sum64()
}

// NonTrivial records a case that is non-trivial by the property's stated rule; class selects the sample bucket.
// sample is evaluated only when the sample is kept.
func (r *R) NonTrivial(hash uint64, class string, sample func() any) {
	r.mu.Lock()
	defer r.mu.Unlock()
	r.res.NonTrivial++
	if _, ok := r.hashes[hash]; ok {
		return
	}
	r.hashes[hash] = struct{}{}
	if r.sampleN[class] < 2 && len(r.res.Samples) < r.maxSamp*4 && sample != nil {
		r.sampleN[class]++
		b, err := json.Marshal(sample())
		if err == nil {
			r.res.Samples = append(r.res.Samples, b)
		}
	}
}

// KnownListed says whether KNOWN_FINDINGS.txt lists a known finding with this slug for this property.
func (r *R) KnownListed(slug string) bool { return r.known[slug] }

// CountKnown counts a case excluded (or tolerated) because it matches a listed finding.
func (r *R) CountKnown(slug string) {
	r.mu.Lock()
	r.res.Known[slug]++
	r.mu.Unlock()
}

// TB is what Fail needs (testing.T and rapid.T both satisfy it).
type TB interface {
	Fatalf(format string, args ...any)
	Helper()
}

// Fail records a violation (the last one recorded per sub-check wins: rapid re-runs the
// minimal case last) and stops the current case.
func (r *R) Fail(t TB, check string, c any, err error) {
	t.Helper()
	if strings.Contains(err.Error(), "resource_error(memory)") {
		// the engine consults the process-wide Go memory limit (engine/malloc.go) before it allocates argument
		// vectors: once this process is over the limit the driver sets, every larger allocation of every later
		// case is refused. That is about the state of the harness process, not about the case: inconclusive.
		err = fmt.Errorf("infrastructure: the engine reported resource_error(memory) under the shard's memory limit: %v", err)
	}
	if strings.HasPrefix(err.Error(), "infrastructure:") {
		// the harness itself failed: never a verdict (the shard ends abnormally, the driver exits 2)
		b, _ := json.Marshal(c)
		t.Fatalf("INFRASTRUCTURE %s/%s: %v (case %s)", r.res.Property, check, err, b)
	}
	r.Record(check, c, err)
	t.Fatalf("VIOLATION %s/%s: %v", r.res.Property, check, err)
}

// FailFatal records a violation after which the process cannot go on safely (a call that never
// returned leaves a runaway goroutine behind): the result file is written and the process exits at
// once, without shrinking. The driver reports the recorded violation.
func (r *R) FailFatal(t *testing.T, check string, c any, err error) {
	r.Record(check, c, err)
	fmt.Printf("VIOLATION (fatal, not shrunk) %s/%s: %v\n", r.res.Property, check, err)
	r.finish(true)
	os.Exit(3)
}

// Slow arms a timer for one case: if the returned stop function is not called within the limit, the case
// is appended to <VERIF_OUT>.slow (diagnostics only: which generated case is expensive; never a verdict).
func (r *R) Slow(c any) func() {
	out := os.Getenv("VERIF_OUT")
	if out == "" {
		return func() {}
	}
	start := time.Now()
	tm := time.AfterFunc(20*time.Second, func() {
		b, _ := json.Marshal(c)
		f, err := os.OpenFile(out+".slow", os.O_APPEND|os.O_CREATE|os.O_WRONLY, 0o644)
		if err == nil {
			fmt.Fprintf(f, "%s still running after %v: %s\n", time.Now().Format(time.RFC3339), time.Since(start), b)
			f.Close()
		}
	})
	return func() { tm.Stop() }
}

// Record records a violation without stopping.
func (r *R) Record(check string, c any, err error) {
	b, _ := json.Marshal(c)
	r.mu.Lock()
	r.fails[check] = &Failure{Property: r.res.Property, Check: check, Message: err.Error(), Case: b, Seed: r.res.Seed, Shard: r.res.Shard}
	r.mu.Unlock()
}

// Failed says whether any violation has been recorded.
func (r *R) Failed() bool {
	r.mu.Lock()
	defer r.mu.Unlock()
	return len(r.fails) > 0
}

func splitmix(x uint64) uint64 {
	x += 0x9e3779b97f4a7c15
	x = (x ^ (x >> 30)) * 0xbf58476d1ce4e5b9
	x = (x ^ (x >> 27)) * 0x94d049bb133111eb
	return x ^ (x >> 31)
}

// SubSeed derives a non-zero seed for a named sub-check of this shard.
func (r *R) SubSeed(name string) uint64 {
	s := splitmix(r.res.Seed ^ Hash(r.res.Property, name) ^ splitmix(uint64(r.res.Shard)+1))
	return s | 1
}

// Rapid runs prop under rapid as a subtest with `total` checks split over the shards and a seed
// derived from VERIF_SEED. Every random choice of the property must be a rapid draw.
func (r *R) Rapid(t *testing.T, name string, total int, prop func(*rapid.T)) {
	t.Helper()
	n := r.PerShard(total)
	_ = flag.Set("rapid.checks", strconv.Itoa(n))
	_ = flag.Set("rapid.seed", strconv.FormatUint(r.SubSeed(name), 10))
	_ = flag.Set("rapid.nofailfile", "true")
	if os.Getenv("VERIF_SHRINKTIME") != "" {
		_ = flag.Set("rapid.shrinktime", os.Getenv("VERIF_SHRINKTIME"))
	} else {
		_ = flag.Set("rapid.shrinktime", "45s")
	}
	t.Run(name, func(t *testing.T) {
		rapid.Check(t, prop)
	})
}

// Finish writes the shard's result file (VERIF_OUT) and the hash set (VERIF_OUT.hashes).
func (r *R) Finish(t *testing.T) {
	r.finishT(t, !t.Failed())
}

func (r *R) finish(ok bool) { r.finishT(nil, ok) }

func (r *R) finishT(t *testing.T, ok bool) {
	r.mu.Lock()
	defer r.mu.Unlock()
	r.res.Completed = ok || len(r.fails) > 0
	names := make([]string, 0, len(r.fails))
	for k := range r.fails {
		names = append(names, k)
	}
	sort.Strings(names)
	r.res.Failures = nil
	for _, k := range names {
		r.res.Failures = append(r.res.Failures, *r.fails[k])
	}
	out := os.Getenv("VERIF_OUT")
	if out == "" {
		b, _ := json.MarshalIndent(r.res, "", " ")
		if len(b) > 6000 {
			b = b[:6000]
		}
		if t != nil {
			t.Logf("result (no VERIF_OUT set): %s", b)
		}
		return
	}
	b, _ := json.Marshal(r.res)
	if err := os.WriteFile(out+".tmp", b, 0o644); err == nil {
		_ = os.Rename(out+".tmp", out)
	}
	hb := make([]byte, 0, 8*len(r.hashes))
	for k := range r.hashes {
		hb = binary.LittleEndian.AppendUint64(hb, k)
	}
	_ = os.WriteFile(out+".hashes", hb, 0o644)
}

// ---- replay of saved cases -------------------------------------------------------------------

// Saved is the on-disk form of a case (replay/, regress/, known/).
type Saved struct {
	Property string          `json:"property"`
	Check    string          `json:"check"`
	Message  string          `json:"message,omitempty"`
	Note     string          `json:"note,omitempty"`
	Case     json.RawMessage `json:"case"`
}

// RunSaved re-executes one saved case file through its registered runner.
func RunSaved(path string) (*Saved, error) {
	b, err := os.ReadFile(path)
	if err != nil {
		return nil, fmt.Errorf("infrastructure: %w", err)
	}
	var s Saved
	if err := json.Unmarshal(b, &s); err != nil {
		return nil, fmt.Errorf("infrastructure: %s: %w", path, err)
	}
	regMu.Lock()
	run := runners[s.Check]
	regMu.Unlock()
	if run == nil {
		return &s, fmt.Errorf("infrastructure: no runner registered for check %q", s.Check)
	}
	return &s, run(s.Case)
}

// Replay implements TestReplay: VERIF_REPLAY names the file.
func Replay(t *testing.T, id string) {
	path := os.Getenv("VERIF_REPLAY")
	if path == "" {
		t.Skip("VERIF_REPLAY not set")
	}
	s, err := RunSaved(path)
	if err != nil {
		if strings.HasPrefix(err.Error(), "infrastructure:") {
			t.Fatalf("%v", err)
		}
		fmt.Printf("REPLAY-VIOLATION property=%s check=%s: %v\n", id, s.Check, err)
		t.Fatalf("violation reproduced: %v", err)
	}
	fmt.Printf("REPLAY-OK property=%s check=%s\n", id, s.Check)
}

// Regress replays regress/<ID>/*.json (shrunk reproductions of defects that were fixed) before any
// search starts; a returning defect fails at once. Only shard 0 does it.
func (r *R) Regress(t *testing.T) {
	if r.res.Shard != 0 || os.Getenv("VERIF_NO_REGRESS") != "" { // (the variable is for sensitivity runs of the search alone)
		return
	}
	files, _ := filepath.Glob(filepath.Join(Root(), "regress", r.res.Property, "*.json"))
	sort.Strings(files)
	for _, f := range files {
		s, err := RunSaved(f)
		if err != nil {
			if strings.HasPrefix(err.Error(), "infrastructure:") {
				t.Fatalf("%v", err)
			}
			r.mu.Lock()
			r.fails["regress:"+filepath.Base(f)] = &Failure{Property: r.res.Property, Check: s.Check, Message: "fixed defect is back (" + filepath.Base(f) + "): " + err.Error(), Case: s.Case, Seed: r.res.Seed}
			r.mu.Unlock()
			t.Errorf("regress %s: %v", f, err)
			continue
		}
		r.Label("regress_replayed")
	}
	r.Eval(len(files))
}

// KnownRepro implements TestKnown: replays known/<ID>/<slug>.json for every listed known finding and
// reports which still fail (VERIF_OUT gets a JSON map slug -> message, "" = no longer fails).
func KnownRepro(t *testing.T, id string) {
	res := map[string]string{}
	for _, k := range LoadKnown(Root()) {
		if k.Property != id || k.Kind != "known" {
			continue
		}
		f := filepath.Join(Root(), "known", id, k.ID+".json")
		_, err := RunSaved(f)
		switch {
		case err == nil:
			res[k.ID] = ""
		default:
			res[k.ID] = err.Error()
		}
	}
	b, _ := json.Marshal(res)
	if out := os.Getenv("VERIF_OUT"); out != "" {
		_ = os.WriteFile(out, b, 0o644)
	} else {
		t.Logf("%s", b)
	}
}
