// Package diff runs a generated program on the reference machine and on the real interpreter
// and compares answer sequences, termination, final error and (optionally) output.
package diff

import (
	"fmt"
	"strings"

	"verif/internal/gen"
	"verif/internal/ref"
	"verif/internal/rt"
	"verif/internal/sut"
)

// Opts bound a comparison.
type Opts struct {
	MaxAnswers    int
	RefSteps      int
	RefWork       int
	CompareOutput bool
	SkipErased    bool // reference retract policy
	BothPolicies  bool // accept the real run if it equals the reference under either retract policy
	// PrefixOnBudget: when the reference runs out of inferences after >= 1 answers, compare those answers
	// instead of discarding the case (only sound for programs without side effects)
	PrefixOnBudget bool
}

// DefaultOpts are the budgets of DESIGN.md section 2.3.
func DefaultOpts() Opts { return Opts{MaxAnswers: 25, RefSteps: 4000, RefWork: 400000} }

// Outcome of one differential run.
type Outcome struct {
	Discard string // non-empty: the case was not compared (reason)
	Err     error  // non-nil: the real interpreter disagrees with the reference
	Ref     ref.Result
	Real    sut.Result
	Prefix  bool // only the reference's answers up to its budget were compared
}

// RunRef runs the program on a fresh reference machine.
func RunRef(p *gen.Program, o Opts, skipErased bool) (ref.Result, *ref.Machine, error) {
	steps, work := o.RefSteps, o.RefWork
	if p.Deep { // a recursion of up to 9000 levels (3 inferences each) on top of the usual budget
		steps, work = steps+40000, work+1_000_000
	}
	m := ref.NewMachine(steps, work)
	m.SkipErased = skipErased
	m.SetUnknownFail(p.UnknownFail)
	for _, d := range p.Dynamic {
		var name string
		var ar int
		i := strings.LastIndex(d, "/")
		name = d[:i]
		fmt.Sscanf(d[i+1:], "%d", &ar)
		m.Declare(name, ar)
	}
	if err := m.Consult(plainAll(p.Grouped(), p.Mode())); err != nil {
		return ref.Result{Budget: true}, m, nil
	}
	return m.Solve(gen.Plain(p.Query, p.Mode()), p.Vars(), o.MaxAnswers), m, nil
}

// Load loads the program into a fresh real interpreter.
func Load(p *gen.Program) (*sut.I, error) {
	i := sut.New()
	if ft := p.FlagText(); ft != "" {
		if e := i.Exec(ft, 200_000); e != nil {
			return i, fmt.Errorf("setting the flags failed: %s", e)
		}
	}
	if !p.ViaAssert {
		if e := i.Exec(p.Text(), 2_000_000); e != nil {
			return i, fmt.Errorf("loading the program failed: %s", e)
		}
		return i, nil
	}
	var decl strings.Builder
	for _, d := range p.Dynamic {
		decl.WriteString(":- dynamic(" + d + ").\n")
	}
	if decl.Len() > 0 {
		if e := i.Exec(decl.String(), 200_000); e != nil {
			return i, fmt.Errorf("declaring dynamic predicates failed: %s", e)
		}
	}
	for _, c := range p.Grouped() {
		ids := c.Vars(nil)
		q := gen.TextStr(rt.C("assertz", c), rt.VarNames(ids)) + "."
		r := i.Query(q, []string{}, 1, 200_000)
		if r.Err != nil || len(r.Answers) != 1 {
			return i, fmt.Errorf("assertz of %s failed: %v", gen.ClauseText(c), r.Err)
		}
	}
	return i, nil
}

// plainAll replaces string literal nodes by the character lists they denote (the reference has one list representation).
func plainAll(cs []*rt.Term, mode string) []*rt.Term {
	out := make([]*rt.Term, len(cs))
	for i, c := range cs {
		out[i] = gen.Plain(c, mode)
	}
	return out
}

// Run compares one program.
func Run(p *gen.Program, o Opts) Outcome {
	var out Outcome
	rr, _, _ := RunRef(p, o, o.SkipErased)
	out.Ref = rr
	if d := rr.Discard(); d != "" {
		if d == "budget" && o.PrefixOnBudget && rr.PrefixComparable() {
			return runPrefix(p, o, out)
		}
		out.Discard = d
		return out
	}
	return RunLoaded(nil, p, o, out)
}

// runPrefix: the reference ran out of inferences after n >= 1 answers (the search is infinite or just long).
// The real run is asked for n answers: they must be those n, in order. Nothing is said about what follows,
// and a real run that exhausts its own (generous) step budget first is inconclusive, not wrong.
func runPrefix(p *gen.Program, o Opts, out Outcome) Outcome {
	rr := out.Ref
	i, err := Load(p)
	if err != nil {
		out.Err = err
		return out
	}
	q, names := p.QueryText()
	n := len(rr.Answers)
	out.Real = i.Query(q, names, n, rr.Stats.RealBudget())
	out.Prefix = true
	for k := 0; k < n && k < len(out.Real.Answers); k++ {
		w, g := maskTuple(rr.Answers[k]), maskTuple(out.Real.Answers[k])
		if !rt.VariantTuple(w, g) {
			out.Err = fmt.Errorf("answer %d differs: real %s, reference %s (the reference search went on beyond its budget; the first %d answers are compared)", k+1, rt.Strings(g), rt.Strings(w), n)
			return out
		}
	}
	if len(out.Real.Answers) < n {
		switch {
		case out.Real.Err != nil && out.Real.Err.Kind == "budget":
			out.Discard = "budget"
		case out.Real.Err != nil:
			out.Err = fmt.Errorf("real run ended with %s after %d answers; the reference has at least %d answers", out.Real.Err, len(out.Real.Answers), n)
		default:
			out.Err = fmt.Errorf("real run reported no more answers after %d; the reference has at least %d (next: %s)", len(out.Real.Answers), n, rt.Strings(rr.Answers[len(out.Real.Answers)]))
		}
	}
	return out
}

// RunLoaded is Run on an interpreter that already holds the program (nil: load it now); only
// sound for programs without side effects.
func RunLoaded(i *sut.I, p *gen.Program, o Opts, out Outcome) Outcome {
	rr := out.Ref
	if i == nil {
		var err error
		i, err = Load(p)
		if err != nil {
			out.Err = err
			return out
		}
	}
	i.Out.Reset()
	q, names := p.QueryText()
	budget := rr.Stats.RealBudget()
	out.Real = i.Query(q, names, o.MaxAnswers, budget)
	out.Real.Output = i.Out.String()
	out.Err = Compare(rr, out.Real, o.CompareOutput)
	if out.Err != nil && o.BothPolicies {
		r2, _, _ := RunRef(p, o, !o.SkipErased)
		if r2.Discard() == "" && Compare(r2, out.Real, o.CompareOutput) == nil {
			out.Err = nil
			out.Ref = r2
		}
	}
	return out
}

func maskTuple(ts []*rt.Term) []*rt.Term {
	out := make([]*rt.Term, len(ts))
	for i, t := range ts {
		out[i] = t.MaskErrorContext()
	}
	return rt.Canon(out)
}

// Compare checks the real result against the reference result.
func Compare(want ref.Result, got sut.Result, output bool) error {
	n := len(want.Answers)
	for k := 0; k < n && k < len(got.Answers); k++ {
		w, g := maskTuple(want.Answers[k]), maskTuple(got.Answers[k])
		if !rt.VariantTuple(w, g) {
			return fmt.Errorf("answer %d differs: real %s, reference %s", k+1, rt.Strings(g), rt.Strings(w))
		}
	}
	if len(got.Answers) < n {
		switch {
		case got.Err != nil && got.Err.Kind == "budget":
			return fmt.Errorf("real run exhausted its step budget (%d steps) after %d answers; the reference has %d answers in %d inferences (finite search)", got.Steps, len(got.Answers), n, want.Stats.Steps)
		case got.Err != nil:
			return fmt.Errorf("real run ended with %s after %d answers; the reference has %d answers", got.Err, len(got.Answers), n)
		default:
			return fmt.Errorf("real run reported no more answers after %d; the reference has %d (next: %s)", len(got.Answers), n, rt.Strings(want.Answers[len(got.Answers)]))
		}
	}
	if len(got.Answers) > n {
		return fmt.Errorf("real run produced an extra answer %d: %s; the reference ends after %d (ball %v, exhausted %v)", n+1, rt.Strings(got.Answers[n]), n, want.Ball, want.Exhausted)
	}
	switch {
	case want.Truncated:
		// prefix comparison only
	case want.Exhausted:
		if got.Err != nil {
			if got.Err.Kind == "budget" {
				return fmt.Errorf("real run exhausted its step budget (%d steps) instead of reporting no more answers; the reference search is finite (%d inferences)", got.Steps, want.Stats.Steps)
			}
			return fmt.Errorf("real run ended with %s; the reference reports no more answers", got.Err)
		}
		if !got.Exhausted && !got.Truncated {
			return fmt.Errorf("real run did not report exhaustion")
		}
	case want.Ball != nil:
		if got.Err == nil {
			return fmt.Errorf("real run ended without error; the reference ends with ball %s", want.Ball.MaskErrorContext())
		}
		if got.Err.Kind != "ball" {
			return fmt.Errorf("real run ended with %s; the reference ends with ball %s", got.Err, want.Ball.MaskErrorContext())
		}
		w, g := want.Ball.MaskErrorContext(), got.Err.Ball.MaskErrorContext()
		if !rt.Variant(w, g) {
			return fmt.Errorf("final error differs: real %s, reference %s", g, w)
		}
	}
	if output && !want.Truncated {
		if got.Output != want.Output {
			return fmt.Errorf("output differs: real %q, reference %q", got.Output, want.Output)
		}
	}
	return nil
}

// OracleSelfTest runs the reference machine's ISO self-test; a non-empty result must stop the check as an
// infrastructure error (the oracle, not the system under test, is broken).
func OracleSelfTest() error {
	if bad := ref.SelfTest(); len(bad) > 0 {
		return fmt.Errorf("infrastructure: the reference machine fails its ISO self-test: %s", strings.Join(bad, " || "))
	}
	return nil
}
