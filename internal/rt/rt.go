// Package rt is the harness's own term representation: what the real interpreter's answers are
// converted to (structurally, never through the writer) and what the oracles compute on.
package rt

import (
	"encoding/json"
	"fmt"
	"math"
	"sort"
	"strconv"
	"strings"
	"unicode"
	"unicode/utf8"
)

type Kind uint8

const (
	Var Kind = iota
	Atom
	Int
	Float
	Comp
	Opaque // streams and anything else that is not an ISO term
)

// Term is an immutable term. Var: I = id. Atom: S. Int: I. Float: F. Comp: S(A...). Opaque: S.
type Term struct {
	K Kind
	S string
	I int64
	F float64
	A []*Term
}

func V(id int64) *Term    { return &Term{K: Var, I: id} }
func A(name string) *Term { return &Term{K: Atom, S: name} }
func I(n int64) *Term     { return &Term{K: Int, I: n} }
func F(f float64) *Term   { return &Term{K: Float, F: f} }
func O(desc string) *Term { return &Term{K: Opaque, S: desc} }
func C(f string, args ...*Term) *Term {
	if len(args) == 0 {
		return A(f)
	}
	return &Term{K: Comp, S: f, A: args}
}

var Nil = A("[]")

// List builds '.'(e1, '.'(e2, ... tail)). tail nil means [].
func List(es []*Term, tail *Term) *Term {
	t := tail
	if t == nil {
		t = Nil
	}
	for i := len(es) - 1; i >= 0; i-- {
		t = C(".", es[i], t)
	}
	return t
}

// ListOf is List(es, nil).
func ListOf(es ...*Term) *Term { return List(es, nil) }

// IsAtom tests for a specific atom.
func (t *Term) IsAtom(name string) bool { return t.K == Atom && t.S == name }

// Is tests for a compound f/n.
func (t *Term) Is(f string, n int) bool { return t.K == Comp && t.S == f && len(t.A) == n }

// Callable: atom or compound.
func (t *Term) Callable() bool { return t.K == Atom || t.K == Comp }

// Unlist splits a list term into elements and tail (tail is Nil for a proper list).
func (t *Term) Unlist() ([]*Term, *Term) {
	var es []*Term
	for t.Is(".", 2) {
		es = append(es, t.A[0])
		t = t.A[1]
	}
	return es, t
}

// Equal is structural identity (same variable ids).
func Equal(a, b *Term) bool {
	if a == b {
		return true
	}
	if a.K != b.K {
		return false
	}
	switch a.K {
	case Var, Int:
		return a.I == b.I
	case Atom, Opaque:
		return a.S == b.S
	case Float:
		return math.Float64bits(a.F) == math.Float64bits(b.F)
	}
	if a.S != b.S || len(a.A) != len(b.A) {
		return false
	}
	for i := range a.A {
		if !Equal(a.A[i], b.A[i]) {
			return false
		}
	}
	return true
}

// Vars appends the variable ids of t in order of first occurrence.
func (t *Term) Vars(acc []int64) []int64 {
	switch t.K {
	case Var:
		for _, v := range acc {
			if v == t.I {
				return acc
			}
		}
		return append(acc, t.I)
	case Comp:
		for _, a := range t.A {
			acc = a.Vars(acc)
		}
	}
	return acc
}

// Rename applies a variable renaming (ids not in m are kept).
func (t *Term) Rename(m map[int64]int64) *Term {
	switch t.K {
	case Var:
		if n, ok := m[t.I]; ok {
			return V(n)
		}
		return t
	case Comp:
		args := make([]*Term, len(t.A))
		for i, a := range t.A {
			args[i] = a.Rename(m)
		}
		return &Term{K: Comp, S: t.S, A: args}
	}
	return t
}

// Subst replaces variables by terms.
func (t *Term) Subst(m map[int64]*Term) *Term {
	switch t.K {
	case Var:
		if n, ok := m[t.I]; ok {
			return n
		}
		return t
	case Comp:
		args := make([]*Term, len(t.A))
		for i, a := range t.A {
			args[i] = a.Subst(m)
		}
		return &Term{K: Comp, S: t.S, A: args}
	}
	return t
}

// Canon renames the variables of a tuple of terms to 0,1,2… in order of first occurrence across the tuple.
func Canon(ts []*Term) []*Term {
	var vs []int64
	for _, t := range ts {
		vs = t.Vars(vs)
	}
	m := make(map[int64]int64, len(vs))
	for i, v := range vs {
		m[v] = int64(i)
	}
	out := make([]*Term, len(ts))
	for i, t := range ts {
		out[i] = t.Rename(m)
	}
	return out
}

// Variant: equal up to a bijective renaming of variables.
func Variant(a, b *Term) bool {
	ca, cb := Canon([]*Term{a}), Canon([]*Term{b})
	return Equal(ca[0], cb[0])
}

// VariantTuple: tuples equal up to one bijective renaming across the whole tuple.
func VariantTuple(a, b []*Term) bool {
	if len(a) != len(b) {
		return false
	}
	ca, cb := Canon(a), Canon(b)
	for i := range ca {
		if !Equal(ca[i], cb[i]) {
			return false
		}
	}
	return true
}

// MaskErrorContext replaces the second argument of every error/2 subterm by the atom '*' (the
// context is implementation defined and is never compared).
func (t *Term) MaskErrorContext() *Term {
	if t.K != Comp {
		return t
	}
	if t.Is("error", 2) {
		// the context of a built-in's error is implementation defined: an unbound variable here, a predicate indicator
		// there. Anything else is what a program put there itself (throw(error(out_of_range, info(X, Max)))) and stays.
		if ctx := t.A[1]; ctx.K == Var || ctx.Is("/", 2) || ctx.IsAtom("*") || ctx.IsAtom("root") {
			return C("error", t.A[0].MaskErrorContext(), A("*"))
		}
		return C("error", t.A[0].MaskErrorContext(), t.A[1].MaskErrorContext())
	}
	args := make([]*Term, len(t.A))
	for i, a := range t.A {
		args[i] = a.MaskErrorContext()
	}
	return &Term{K: Comp, S: t.S, A: args}
}

// Size counts nodes.
func (t *Term) Size() int {
	n := 1
	for _, a := range t.A {
		n += a.Size()
	}
	return n
}

// Depth of the term tree.
func (t *Term) Depth() int {
	d := 0
	for _, a := range t.A {
		if x := a.Depth(); x > d {
			d = x
		}
	}
	return d + 1
}

// ---- standard order (reference) ---------------------------------------------------------------

func rank(t *Term) int {
	switch t.K {
	case Var:
		return 0
	case Float:
		return 1
	case Int:
		return 2
	case Atom:
		return 3
	case Comp:
		return 4
	}
	return 5
}

// Compare implements the standard order Var < Float < Int < Atom < Compound (compounds by arity,
// name, arguments). varDep reports whether the decision hinged on two distinct variables.
func Compare(a, b *Term) (c int, varDep bool) {
	ra, rb := rank(a), rank(b)
	if ra != rb {
		if ra < rb {
			return -1, false
		}
		return 1, false
	}
	switch a.K {
	case Var:
		switch {
		case a.I == b.I:
			return 0, false
		case a.I < b.I:
			return -1, true
		}
		return 1, true
	case Int:
		switch {
		case a.I < b.I:
			return -1, false
		case a.I > b.I:
			return 1, false
		}
		return 0, false
	case Float:
		switch {
		case a.F < b.F:
			return -1, false
		case a.F > b.F:
			return 1, false
		}
		return 0, false
	case Atom, Opaque:
		return cmpRunes(a.S, b.S), false
	}
	if len(a.A) != len(b.A) {
		if len(a.A) < len(b.A) {
			return -1, false
		}
		return 1, false
	}
	if c := cmpRunes(a.S, b.S); c != 0 {
		return c, false
	}
	for i := range a.A {
		if c, vd := Compare(a.A[i], b.A[i]); c != 0 {
			return c, vd
		}
	}
	return 0, false
}

func cmpRunes(a, b string) int {
	// code point order == byte order for valid UTF-8
	return strings.Compare(a, b)
}

// SortTerms sorts by the standard order (stable).
func SortTerms(ts []*Term) {
	sort.SliceStable(ts, func(i, j int) bool { c, _ := Compare(ts[i], ts[j]); return c < 0 })
}

// ---- text ---------------------------------------------------------------------------------------

var infixOps = map[string]bool{
	",": true, ";": true, "->": true, "=": true, "\\=": true, "==": true, "\\==": true, "is": true,
	"<": true, ">": true, "=<": true, ">=": true, "=:=": true, "=\\=": true, "+": true, "-": true, "*": true,
	":-": true, "^": true, "@<": true, "@>": true, "@=<": true, "@>=": true, "-->": true, "|": true, "/": true, "=..": true,
	"//": true, "mod": true,
}

func isSolo(s string) bool {
	switch s {
	case "[]", "{}", "!", ";", ",", "|":
		return true
	}
	return false
}

func isAlnumAtom(s string) bool {
	if s == "" {
		return false
	}
	for i, r := range s {
		if i == 0 {
			if !(r >= 'a' && r <= 'z') {
				return false
			}
			continue
		}
		if !(r == '_' || r >= 'a' && r <= 'z' || r >= 'A' && r <= 'Z' || r >= '0' && r <= '9') {
			return false
		}
	}
	return true
}

const graphicChars = "#$&*+-./:<=>?@^~\\"

func isGraphicAtom(s string) bool {
	if s == "" {
		return false
	}
	for _, r := range s {
		if !strings.ContainsRune(graphicChars, r) {
			return false
		}
	}
	return true
}

// QuoteAtom renders an atom so that the engine's reader yields exactly this text.
func QuoteAtom(s string) string {
	if isAlnumAtom(s) || s == "[]" || s == "{}" || s == "!" || s == ";" {
		return s
	}
	if isGraphicAtom(s) && !strings.HasPrefix(s, "/*") && s != "." {
		return s
	}
	var b strings.Builder
	b.WriteByte('\'')
	for _, r := range s {
		switch {
		case r == '\'':
			b.WriteString("\\'")
		case r == '\\':
			b.WriteString("\\\\")
		case r == '\n':
			b.WriteString("\\n")
		case r == '\t':
			b.WriteString("\\t")
		case r == ' ' || r > ' ' && r < 0x7f:
			b.WriteRune(r)
		case r >= 0x80 && (unicode.IsLetter(r) && (unicode.IsLower(r) || unicode.IsUpper(r) || unicode.Is(unicode.Lo, r))):
			b.WriteRune(r)
		default:
			fmt.Fprintf(&b, "\\x%x\\", r)
		}
	}
	b.WriteByte('\'')
	return b.String()
}

// FloatText renders a float the way the engine's lexer accepts it.
func FloatText(f float64) string {
	s := strconv.FormatFloat(f, 'g', -1, 64)
	if !strings.ContainsRune(s, '.') {
		if strings.ContainsRune(s, 'e') {
			s = strings.Replace(s, "e", ".0e", 1)
		} else {
			s += ".0"
		}
	}
	return s
}

// Text renders t as Prolog source in a fixed safe syntax subset. names maps variable ids to
// names; unknown ids get _G<n>.
func (t *Term) Text(names map[int64]string) string {
	var b strings.Builder
	t.text(&b, names, false)
	return b.String()
}

// String is Text with default variable names (for messages and samples).
func (t *Term) String() string { return t.Text(nil) }

func (t *Term) text(b *strings.Builder, names map[int64]string, arg bool) {
	switch t.K {
	case Var:
		if n, ok := names[t.I]; ok {
			b.WriteString(n)
		} else {
			fmt.Fprintf(b, "_G%d", t.I)
		}
	case Atom:
		q := QuoteAtom(t.S)
		if infixOps[t.S] || t.S == "\\+" || t.S == "dynamic" || (isGraphicAtom(t.S) && !arg) {
			// an operator as an atom: bracket it so it is an ordinary operand everywhere
			b.WriteString("(" + q + ")")
		} else {
			b.WriteString(q)
		}
	case Int:
		if t.I < 0 && !arg {
			fmt.Fprintf(b, "(%d)", t.I)
		} else {
			fmt.Fprintf(b, "%d", t.I)
		}
	case Float:
		if (t.F < 0 || math.Signbit(t.F)) && !arg {
			b.WriteString("(" + FloatText(t.F) + ")")
		} else {
			b.WriteString(FloatText(t.F))
		}
	case Opaque:
		b.WriteString("'$opaque'(" + QuoteAtom(t.S) + ")")
	case Comp:
		if t.Is(".", 2) {
			b.WriteByte('[')
			t.A[0].text(b, names, true)
			rest := t.A[1]
			for rest.Is(".", 2) {
				b.WriteByte(',')
				rest.A[0].text(b, names, true)
				rest = rest.A[1]
			}
			if !rest.IsAtom("[]") {
				b.WriteByte('|')
				rest.text(b, names, true)
			}
			b.WriteByte(']')
			return
		}
		if len(t.A) == 2 && infixOps[t.S] {
			b.WriteByte('(')
			t.A[0].text(b, names, false)
			b.WriteString(" " + t.S + " ")
			t.A[1].text(b, names, false)
			b.WriteByte(')')
			return
		}
		if t.Is("{}", 1) {
			b.WriteByte('{')
			t.A[0].text(b, names, false)
			b.WriteByte('}')
			return
		}
		if t.Is("\\+", 1) {
			b.WriteString("(\\+ (")
			t.A[0].text(b, names, false)
			b.WriteString("))")
			return
		}
		b.WriteString(QuoteAtom(t.S))
		b.WriteByte('(')
		for i, a := range t.A {
			if i > 0 {
				b.WriteByte(',')
			}
			a.text(b, names, true)
		}
		b.WriteByte(')')
	}
}

// VarNames gives conventional names to variable ids: V0, V1, …
func VarNames(ids []int64) map[int64]string {
	m := map[int64]string{}
	for _, id := range ids {
		m[id] = "V" + strconv.FormatInt(id, 10)
	}
	return m
}

// ---- JSON ---------------------------------------------------------------------------------------

type jterm struct {
	V *int64  `json:"v,omitempty"`
	A *string `json:"a,omitempty"`
	I *string `json:"i,omitempty"`
	F *string `json:"f,omitempty"`
	O *string `json:"o,omitempty"`
	C *string `json:"c,omitempty"`
	X []*Term `json:"x,omitempty"`
}

func (t *Term) MarshalJSON() ([]byte, error) {
	var j jterm
	switch t.K {
	case Var:
		j.V = &t.I
	case Atom:
		s := encStr(t.S)
		j.A = &s
	case Int:
		s := strconv.FormatInt(t.I, 10)
		j.I = &s
	case Float:
		s := strconv.FormatUint(math.Float64bits(t.F), 16) + " " + strconv.FormatFloat(t.F, 'g', -1, 64)
		j.F = &s
	case Opaque:
		j.O = &t.S
	case Comp:
		s := encStr(t.S)
		j.C = &s
		j.X = t.A
	}
	return json.Marshal(j)
}

func (t *Term) UnmarshalJSON(b []byte) error {
	var j jterm
	if err := json.Unmarshal(b, &j); err != nil {
		return err
	}
	switch {
	case j.V != nil:
		*t = Term{K: Var, I: *j.V}
	case j.A != nil:
		*t = Term{K: Atom, S: decStr(*j.A)}
	case j.I != nil:
		n, err := strconv.ParseInt(*j.I, 10, 64)
		if err != nil {
			return err
		}
		*t = Term{K: Int, I: n}
	case j.F != nil:
		f := strings.Fields(*j.F)
		bits, err := strconv.ParseUint(f[0], 16, 64)
		if err != nil {
			return err
		}
		*t = Term{K: Float, F: math.Float64frombits(bits)}
	case j.O != nil:
		*t = Term{K: Opaque, S: *j.O}
	case j.C != nil:
		*t = Term{K: Comp, S: decStr(*j.C), A: j.X}
	default:
		return fmt.Errorf("rt: empty term")
	}
	return nil
}

// encStr keeps arbitrary (possibly invalid UTF-8) atom text intact through JSON.
func encStr(s string) string {
	if utf8.ValidString(s) && !strings.HasPrefix(s, "\x00hex:") {
		return s
	}
	return "\x00hex:" + fmt.Sprintf("%x", s)
}

func decStr(s string) string {
	if strings.HasPrefix(s, "\x00hex:") {
		var out []byte
		_, _ = fmt.Sscanf(s[5:], "%x", &out)
		return string(out)
	}
	return s
}

// Strings renders a tuple for messages.
func Strings(ts []*Term) string {
	ss := make([]string, len(ts))
	for i, t := range ts {
		ss[i] = t.String()
	}
	return "(" + strings.Join(ss, ", ") + ")"
}
