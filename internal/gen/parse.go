package gen

import (
	"sync"

	"verif/internal/rt"
	"verif/internal/sut"
)

var (
	parseMu    sync.Mutex
	parseCache = map[string]*rt.Term{}
)

// MustParse parses helper source text (library templates, scenario tables).
func MustParse(src string) *rt.Term {
	parseMu.Lock()
	defer parseMu.Unlock()
	if t, ok := parseCache[src]; ok {
		return t
	}
	t, err := sut.ParseTerm(src)
	if err != nil {
		panic(err)
	}
	parseCache[src] = t
	return t
}
