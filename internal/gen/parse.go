package gen

import (
	"sync"

	"verif/internal/rt"
	"verif/internal/sut"
)

var (
	parseMu    sync.Mutex
	parseCache = map[string]*rt.Term{}
)

// MustParse parses helper source text (library templates, scenario tables).
func MustParse(src string) *rt.Term {
	parseMu.Lock()
	defer parseMu.Unlock()
	if t, ok := parseCache[src]; ok {
		return t
	}
	t, err := sut.ParseTerm(src)
	if err != nil {
		panic(err)
	}
	parseCache[src] = t
	return t
}

// AnonErrorContexts renames the variable in the context position of every error(F, Ctx) subterm to
// an anonymous id (>= 1000), so that it is not part of the compared answer.
func AnonErrorContexts(t *rt.Term) *rt.Term {
	n := int64(1000)
	var rec func(t *rt.Term) *rt.Term
	rec = func(t *rt.Term) *rt.Term {
		if t.K != rt.Comp {
			return t
		}
		args := make([]*rt.Term, len(t.A))
		for i, a := range t.A {
			args[i] = rec(a)
		}
		if t.S == "error" && len(args) == 2 && args[1].K == rt.Var {
			n++
			args[1] = rt.V(n)
		}
		return rt.C(t.S, args...)
	}
	return rec(t)
}
