// Package gen holds the rapid generators shared by the program-level checks: terms, clause
// bodies, programs and queries, all built by construction (no filtering).
package gen

import (
	"fmt"
	"strings"

	"pgregory.net/rapid"

	"verif/internal/rt"
)

// Features switch grammar productions on per property.
type Features struct {
	NestedDisj bool // (a ; b) inside a body (goes through ;/2 -> call/1)
	TopDisj    bool // body that is a top-level disjunction (split into clauses by the compiler)
	Call       bool // call/1..4, variable goals
	Cut        bool // ! as a direct conjunct of a clause body / top-level disjunct, and inside cut-opaque constructs
	Ite        bool // -> and *->-free if-then(-else); branches never hold a bare cut
	Neg        bool // \+ and once/1
	Catch      bool // catch/3, throw/1, built-in errors
	Db         bool // asserta/assertz/retract/retractall/clause on the dynamic predicates d/1, e/2
	AllSol     bool // findall/bagof/setof
	Write      bool // write/1 of small atoms as progress markers
	Lib        bool // recursive library templates (app/3, mem/2, nat/1, len/2)
	Strings    bool // double-quoted strings among the terms (they denote lists of the characters a, b, c)
	Deep       bool // now and then one goal that recurses several thousand levels deep
	Flags      bool // now and then a non-default double_quotes / unknown flag set before the program is loaded
}

// Program is a generated case: clauses, dynamic declarations, one query.
type Program struct {
	Clauses   []*rt.Term `json:"clauses"`
	Dynamic   []string   `json:"dynamic,omitempty"` // "d/1"
	Query     *rt.Term   `json:"query"`
	ViaAssert bool       `json:"via_assert,omitempty"` // load the clauses with assertz instead of Exec
	Deep      bool       `json:"deep,omitempty"`       // contains a down/1 goal: the reference needs a larger inference budget
	// Flags set before the program is loaded: DQ = double_quotes value ("" = the default, chars), UnknownFail = the
	// flag unknown set to fail
	DQ          string `json:"dq,omitempty"`
	UnknownFail bool   `json:"unknown_fail,omitempty"`
}

type sig struct {
	name  string
	arity int
}

type g struct {
	t     *rapid.T
	f     Features
	sigs  []sig
	nvars int // variables used so far in the current clause / query
	depth int
	deep  bool // a down/1 goal has been generated (at most one per program)
}

// n draws lo..hi nearly uniformly (rapid's IntRange is biased towards small values); shrinks towards lo.
func (x *g) n(lo, hi int, label string) int {
	if hi <= lo {
		return lo
	}
	return lo + int(rapid.Uint64().Draw(x.t, label)%uint64(hi-lo+1))
}

// p is true with (about) the given percentage; shrinks towards true.
func (x *g) p(percent int, label string) bool {
	return int(rapid.Uint64().Draw(x.t, label)%100) < percent
}

var atoms = []string{"a", "b", "c"}

func (x *g) atom() *rt.Term { return rt.A(atoms[x.n(0, len(atoms)-1, "atom")]) }

// v picks an existing variable or makes a new one (at most 5 per clause).
func (x *g) v() *rt.Term {
	if x.nvars == 0 || (x.nvars < 5 && x.p(35, "newvar")) {
		x.nvars++
		return rt.V(int64(x.nvars - 1))
	}
	return rt.V(int64(x.n(0, x.nvars-1, "var")))
}

func (x *g) term(d int) *rt.Term {
	if d > 0 && x.p(3, "wideorlong") {
		// sizes beyond the small ones: a compound of arity 9-10 (the engine allocates argument vectors of more
		// than 8 terms on another path), a list of 12-20 elements
		if x.p(50, "wide") {
			args := make([]*rt.Term, x.n(9, 10, "widearity"))
			for i := range args {
				args[i] = x.term(0)
			}
			return rt.C("w", args...)
		}
		es := make([]*rt.Term, x.n(12, 20, "longlen"))
		for i := range es {
			es[i] = x.term(0)
		}
		return rt.List(es, nil)
	}
	if x.f.Strings && x.p(4, "string") {
		// a double-quoted string: the list of its characters (the default flag) in the engine's compact representation
		return Str([]string{"ab", "a", "abc", "ba", ""}[x.n(0, 4, "strtext")])
	}
	k := x.n(0, 11, "termkind")
	switch {
	case k < 3:
		return x.v()
	case k < 6 || d <= 0:
		if x.p(25, "int") {
			return rt.I(int64(x.n(0, 2, "i")))
		}
		if x.p(10, "nil") { // [] as an element / argument (in a list it is an element, not the end)
			return rt.A("[]")
		}
		return x.atom()
	case k < 7:
		return rt.C("f", x.term(d-1))
	case k < 8:
		return rt.C("f", x.term(d-1), x.term(d-1)) // same name, other arity
	case k < 9:
		return rt.C("g", x.term(d-1), x.term(d-1))
	case k < 10:
		return rt.A("f") // same name as an atom
	default:
		n := x.n(0, 3, "listlen")
		es := make([]*rt.Term, n)
		for i := range es {
			es[i] = x.term(d - 1)
		}
		var tail *rt.Term
		if x.p(30, "partial") {
			tail = x.v()
		}
		return rt.List(es, tail)
	}
}

// arg is an argument of a call: mostly variables (so that heads match), sometimes instantiated.
func (x *g) arg() *rt.Term {
	if x.p(55, "argvar") {
		return x.v()
	}
	return x.term(1)
}

var libNames = map[string]bool{"app": true, "mem": true, "nat": true, "len": true, "cnt": true}

// groundish builds a small proper list or Peano numeral (arguments that make the library templates terminate).
func (x *g) groundish(peano bool) *rt.Term {
	if peano {
		t := rt.A("z")
		for i := x.n(0, 3, "peano"); i > 0; i-- {
			t = rt.C("s", t)
		}
		return t
	}
	n := x.n(0, 3, "glen")
	es := make([]*rt.Term, n)
	for i := range es {
		if x.p(30, "gvar") {
			es[i] = x.v()
		} else {
			es[i] = x.term(0)
		}
	}
	return rt.List(es, nil)
}

func (x *g) userCall() *rt.Term {
	s := x.sigs[x.n(0, len(x.sigs)-1, "sig")]
	args := make([]*rt.Term, s.arity)
	for i := range args {
		args[i] = x.arg()
	}
	if libNames[s.name] && x.p(80, "saneLib") {
		// instantiate the argument the template recurses on
		switch s.name {
		case "app":
			if x.p(50, "appmode") {
				args[0] = x.groundish(false)
			} else {
				args[2] = x.groundish(false)
			}
		case "mem":
			args[1] = x.groundish(false)
		case "nat", "cnt":
			args[0] = x.groundish(true)
		case "len":
			if x.p(50, "lenmode") {
				args[0] = x.groundish(false)
			} else {
				args[1] = x.groundish(true)
			}
		}
	}
	return rt.C(s.name, args...)
}

func (x *g) simpleGoal() *rt.Term {
	if x.f.Deep && !x.deep && x.n(0, 149, "deep") == 149 { // (rapid favours small values: test for the largest)
		// a deterministic recursion several thousand levels deep (down/1 is added to the program): what comes after
		// it - answers, backtracking, cuts, balls - happens on top of a long chain of frames
		x.deep = true
		return rt.C("down", rt.I([]int64{4200, 5000, 9000}[x.n(0, 2, "depth")]))
	}
	k := x.n(0, 19, "simple")
	switch {
	case k < 9:
		return x.userCall()
	case k < 11:
		return rt.C("n", x.v())
	case k < 12:
		return rt.C("m", x.v())
	case k < 15:
		return rt.C("=", x.v(), x.term(1))
	case k < 16:
		return rt.A("true")
	case k < 17:
		return rt.C("\\=", x.v(), x.atom())
	case k < 19:
		if x.f.Write {
			return rt.C("write", x.atom())
		}
		return rt.C("==", x.v(), x.term(1))
	default:
		return rt.A("fail")
	}
}

// goal generates one body goal; cutOK says a bare ! may appear inside nested cut-opaque constructs.
func (x *g) goal(d int) *rt.Term {
	if d <= 0 {
		return x.simpleGoal()
	}
	type opt struct {
		on bool
		f  func() *rt.Term
	}
	opts := []opt{
		{true, x.simpleGoal}, {true, x.simpleGoal}, {true, x.simpleGoal},
		{x.f.NestedDisj, func() *rt.Term { return rt.C(";", x.conj(d-1, 2, false), x.conj(d-1, 2, false)) }},
		{x.f.Call, func() *rt.Term {
			switch x.n(0, 3, "callkind") {
			case 0:
				return rt.C("call", x.metaGoal(d-1, 2, x.f.Cut))
			case 1:
				s := x.sigs[x.n(0, len(x.sigs)-1, "csig")]
				if s.arity == 0 {
					return rt.C("call", rt.A(s.name))
				}
				args := make([]*rt.Term, s.arity)
				for i := range args {
					args[i] = x.arg()
				}
				k := x.n(0, s.arity, "closure")
				return rt.C("call", append([]*rt.Term{rt.C(s.name, args[:k]...)}, args[k:]...)...)
			case 2:
				// variable goal bound just before
				gv := x.v()
				return rt.C(",", rt.C("=", gv, x.simpleGoal()), rt.C("call", gv))
			default:
				return rt.C("call", x.v())
			}
		}},
		{x.f.Ite && x.f.Call, func() *rt.Term {
			// if-then-else whose (If -> Then) part reaches call/1 through a variable bound beforehand
			gv := x.v()
			return rt.C(",", rt.C("=", gv, rt.C("->", x.conj(d-1, 2, false), x.conj(d-1, 2, false))),
				rt.C("call", rt.C(";", gv, x.conj(d-1, 2, false))))
		}},
		{x.f.Ite, func() *rt.Term {
			if x.p(30, "ifthen") {
				return rt.C("->", x.conj(d-1, 2, false), x.conj(d-1, 2, false))
			}
			return rt.C(";", rt.C("->", x.conj(d-1, 2, false), x.conj(d-1, 2, false)), x.conj(d-1, 2, false))
		}},
		{x.f.Neg, func() *rt.Term {
			if x.p(40, "once") {
				return rt.C("once", x.metaGoal(d-1, 2, x.f.Cut))
			}
			return rt.C("\\+", x.metaGoal(d-1, 2, x.f.Cut))
		}},
		{x.f.Catch, func() *rt.Term {
			// dedicated productions for the two rare shapes: a throw in the continuation of a catch/3
			// whose goal has exited, and a throw after backtracking into the goal
			v := x.v()
			if x.p(50, "afterexit") {
				return Conj([]*rt.Term{rt.C("catch", rt.C("n", v), x.catcher(), x.conj(d-1, 2, false)), x.simpleGoal(), rt.C("throw", x.ball())})
			}
			thrower := rt.C(";", rt.C("->", rt.C("==", v, rt.I(int64(x.n(1, 3, "when")))), rt.C("throw", x.ball())), rt.A("true"))
			return Conj([]*rt.Term{rt.C("catch", rt.C(",", rt.C("n", v), thrower), x.catcher(), x.conj(d-1, 2, false)), rt.C("\\==", v, rt.I(1))})
		}},
		{x.f.Catch, func() *rt.Term {
			switch x.n(0, 7, "catchkind") {
			case 7:
				// the protected goal itself is the error: unbound, a number, or a conjunction holding a number
				// (catch/3 calls its goal as call/1 does, so the error is raised inside the catch and is its to catch)
				bad := []*rt.Term{x.v(), rt.V(int64(900 + x.n(10, 19, "freshgoal"))), rt.I(1), rt.C(",", rt.A("true"), rt.I(1)), rt.C(",", rt.C("n", x.v()), x.v())}[x.n(0, 4, "badgoal")]
				return rt.C("catch", bad, x.catcher(), x.conj(d-1, 2, false))
			case 0, 1, 2:
				return rt.C("catch", x.metaGoal(d-1, 3, x.f.Cut), x.catcher(), x.conj(d-1, 2, false))
			case 3, 4:
				return rt.C("throw", x.ball())
			default:
				return x.builtinError()
			}
		}},
		{x.f.Db, func() *rt.Term { return x.dbGoal() }},
		{x.f.AllSol, func() *rt.Term { return x.allSol(d) }},
	}
	var en []func() *rt.Term
	for _, o := range opts {
		if o.on {
			en = append(en, o.f)
		}
	}
	return en[x.n(0, len(en)-1, "goalkind")]()
}

func (x *g) ball() *rt.Term {
	if x.p(10, "userctx") { // an error/2 ball whose context is the program's own data
		return rt.C("error", x.atom(), rt.C("info", x.v(), x.v()))
	}
	switch x.n(0, 4, "ball") {
	case 0:
		return x.atom()
	case 1:
		return rt.C("f", x.v())
	case 2:
		return rt.C("g", x.atom(), x.v())
	case 3:
		return x.v()
	default:
		return rt.I(int64(x.n(0, 2, "bi")))
	}
}

func (x *g) catcher() *rt.Term {
	if x.p(8, "userctxcatcher") {
		// (the formal is one of the program's own atoms: a built-in's error never matches, so its implementation
		// defined context is not put to the test)
		return rt.C("error", x.atom(), rt.C("info", x.v(), x.v()))
	}
	switch x.n(0, 6, "catcher") {
	case 0, 1:
		return x.v()
	case 2:
		return x.atom()
	case 3:
		return rt.C("f", x.v())
	case 4:
		return rt.C("error", x.v(), rt.V(int64(1000+x.n(0, 50, "anon")))) // context left to an anonymous variable
	case 5:
		return rt.C("g", x.atom(), x.v())
	default:
		return rt.C("error", rt.C("type_error", x.v(), x.v()), rt.V(int64(1000+x.n(0, 50, "anon2"))))
	}
}

func (x *g) builtinError() *rt.Term {
	switch x.n(0, 4, "bierr") {
	case 0:
		return rt.C("is", x.v(), rt.C("+", rt.A("a"), rt.I(1))) // type_error(evaluable, a/0)
	case 1:
		return rt.C("call", rt.I(1)) // type_error(callable, 1)
	case 2:
		return rt.A("undefined_pred") // existence_error(procedure, undefined_pred/0)
	case 3:
		return rt.C("is", x.v(), rt.C("+", rt.V(int64(900+x.n(0, 9, "fresh"))), rt.I(1))) // instantiation_error
	default:
		return rt.C("call", rt.C(",", rt.A("true"), rt.I(1))) // type_error(callable, (true,1))
	}
}

func (x *g) dbTerm() *rt.Term {
	if x.p(60, "d1") {
		return rt.C("d", x.term(1))
	}
	return rt.C("e", x.term(1), x.term(1))
}

func (x *g) dbGoal() *rt.Term {
	switch x.n(0, 9, "db") {
	case 0, 1:
		return rt.C("assertz", x.dbTerm())
	case 2:
		return rt.C("asserta", x.dbTerm())
	case 3, 4:
		return rt.C("retract", x.dbTerm())
	case 5, 6:
		return x.dbTerm()
	case 7:
		return rt.C("clause", x.dbTerm(), x.v())
	case 8:
		return rt.C("assertz", rt.C(":-", x.dbTerm(), x.simpleGoal()))
	default:
		return rt.C("retractall", x.dbTerm())
	}
}

func (x *g) allSol(d int) *rt.Term {
	goal := x.metaGoal(d-1, 2, x.f.Cut)
	tmpl := x.term(1)
	res := x.v()
	if x.p(15, "boundres") {
		res = x.term(1)
	}
	switch x.n(0, 4, "allsol") {
	case 0, 1:
		return rt.C("findall", tmpl, goal, res)
	case 2:
		return rt.C("bagof", tmpl, goal, res)
	case 3:
		return rt.C("bagof", tmpl, rt.C("^", x.v(), goal), res)
	default:
		if x.p(50, "caret") {
			return rt.C("setof", tmpl, rt.C("^", x.v(), goal), res)
		}
		return rt.C("setof", tmpl, goal, res)
	}
}

// metaGoal is the goal argument of a cut-opaque construct (call/1, catch/3, findall/3, \+, once/1): a
// conjunction, or (a quarter of the time) a disjunction of two conjunctions standing directly in the argument
// position - a cut in one of its disjuncts is local to the construct and removes the other disjunct.
func (x *g) metaGoal(d, max int, cut bool) *rt.Term {
	if !x.f.NestedDisj || !x.p(25, "metadisj") {
		return x.conj(d, max, cut)
	}
	left, right := x.conj(d, 2, cut), x.conj(d, 2, cut)
	if left.Is("->", 2) { // (C -> T ; E) would be an if-then-else: its branches must not hold a bare cut
		left = rt.C(",", rt.A("true"), left)
	}
	return rt.C(";", left, right)
}

// conj builds a conjunction of 1..max goals; cut says a bare ! may be a direct conjunct.
func (x *g) conj(d, max int, cut bool) *rt.Term {
	n := x.n(1, max, "conjlen")
	if max >= 3 && x.p(12, "longconj") {
		n = x.n(4, 5, "longconjlen")
	}
	gs := make([]*rt.Term, 0, n)
	cutVar := int64(-1)
	for i := 0; i < n; i++ {
		switch {
		case cut && x.f.Call && cutVar < 0 && i+1 < n && x.p(4, "cutvar"):
			// the cut is supplied through a variable bound before the enclosing call/1 converts its goal
			cutVar = int64(800 + x.n(0, 9, "cutvarid"))
			gs = append(gs, rt.V(cutVar))
		case cut && x.p(25, "cut"):
			gs = append(gs, rt.A("!"))
		default:
			gs = append(gs, x.goal(d))
		}
	}
	body := x.assoc(gs)
	if cutVar >= 0 {
		// C = !, call((..., C, ...)): ISO 7.6.2 converts the dereferenced goal, so C is a cut local to the call
		return rt.C(",", rt.C("=", rt.V(cutVar), rt.A("!")), rt.C("call", body))
	}
	return body
}

// assoc joins goals into a conjunction: usually right-nested (as the parser reads a, b, c), otherwise
// a random bracketing ((a, b), c), ((a, b), (c, d)), ... which is the same conjunction (ISO 7.6.2:
// the body conversion goes through both arguments of ','/2, so a cut keeps its clause-level meaning).
func (x *g) assoc(gs []*rt.Term) *rt.Term {
	if len(gs) <= 2 || !x.p(35, "assoc") {
		return Conj(gs)
	}
	return x.tree(gs)
}

func (x *g) tree(gs []*rt.Term) *rt.Term {
	if len(gs) == 1 {
		return gs[0]
	}
	k := x.n(1, len(gs)-1, "split")
	if x.p(50, "leftheavy") {
		k = len(gs) - 1
	}
	return rt.C(",", x.tree(gs[:k]), x.tree(gs[k:]))
}

// Conj right-nests goals into a conjunction.
func Conj(gs []*rt.Term) *rt.Term {
	if len(gs) == 0 {
		return rt.A("true")
	}
	t := gs[len(gs)-1]
	for i := len(gs) - 2; i >= 0; i-- {
		t = rt.C(",", gs[i], t)
	}
	return t
}

func (x *g) clause(s sig) *rt.Term {
	x.nvars = 0
	args := make([]*rt.Term, s.arity)
	for i := range args {
		switch k := x.n(0, 9, "headarg"); {
		case k < 4:
			args[i] = x.v()
		case k < 6:
			args[i] = x.term(0)
		case k < 9:
			args[i] = x.term(1)
		default:
			args[i] = x.term(2)
		}
	}
	head := rt.C(s.name, args...)
	if x.p(35, "fact") {
		return head
	}
	if x.f.TopDisj && x.p(25, "topdisj") {
		left, right := x.conj(1, 2, x.f.Cut), x.conj(1, 2, x.f.Cut)
		if left.Is("->", 2) { // (C -> T ; E) is if-then-else, not a disjunction: its branches must not hold a bare cut
			left = rt.C(",", rt.A("true"), left)
		}
		return rt.C(":-", head, rt.C(";", left, right))
	}
	return rt.C(":-", head, x.conj(2, 3, x.f.Cut))
}

var libs = map[string][]string{
	"app/3": {"app([], L, L)", "app([H|T], L, [H|R]) :- app(T, L, R)"},
	"mem/2": {"mem(X, [X|_])", "mem(X, [_|T]) :- mem(X, T)"},
	"nat/1": {"nat(z)", "nat(s(X)) :- nat(X)"},
	"len/2": {"len([], z)", "len([_|T], s(N)) :- len(T, N)"},
}

// cutLibs are templates with cuts: first solution, recursion with a cut in the recursive clause,
// repeat ... !, cut after two nondeterministic goals, cut in the last clause, double cut.
var cutLibs = map[string][]string{
	"fst/1": {"fst(X) :- n(X), !", "fst(0)"},
	"cnt/1": {"cnt(z)", "cnt(s(N)) :- n(_), !, cnt(N)", "cnt(s(s(_)))"},
	"rp/1":  {"rp(X) :- repeat, n(X), X = 2, !"},
	"mx/2":  {"mx(X, Y) :- n(X), m(Y), !", "mx(0, c)"},
	"lst/1": {"lst(a)", "lst(X) :- m(X), !"},
	"dbl/1": {"dbl(X) :- n(X), !, m(_), !", "dbl(7)"},
}

// GenProgram generates a program and a query for the given feature set.
func GenProgram(f Features) *rapid.Generator[*Program] {
	return rapid.Custom(func(t *rapid.T) *Program {
		x := &g{t: t, f: f}
		// signature: same names at several arities
		pool := []sig{{"p", 0}, {"p", 1}, {"p", 2}, {"q", 1}, {"q", 2}, {"q", 3}, {"r", 1}, {"r", 0}, {"s", 2}}
		np := x.n(1, 4, "npreds")
		seen := map[sig]bool{}
		for len(x.sigs) < np {
			s := pool[x.n(0, len(pool)-1, "pred")]
			if !seen[s] {
				seen[s] = true
				x.sigs = append(x.sigs, s)
			}
		}
		user := append([]sig{}, x.sigs...)
		pr := &Program{}
		var libClauses []*rt.Term
		if f.Lib && x.p(50, "lib") {
			for _, name := range []string{"app/3", "mem/2", "nat/1", "len/2"} {
				if x.p(40, "lib:"+name) {
					var ar int
					fmt.Sscanf(name[strings.Index(name, "/")+1:], "%d", &ar)
					x.sigs = append(x.sigs, sig{name[:strings.Index(name, "/")], ar})
					for _, src := range libs[name] {
						libClauses = append(libClauses, MustParse(src))
					}
				}
			}
		}
		if f.Cut && x.p(60, "cutlib") {
			for _, name := range []string{"fst/1", "cnt/1", "rp/1", "mx/2", "lst/1", "dbl/1"} {
				if x.p(35, "cutlib:"+name) {
					var ar int
					fmt.Sscanf(name[strings.Index(name, "/")+1:], "%d", &ar)
					x.sigs = append(x.sigs, sig{name[:strings.Index(name, "/")], ar})
					for _, src := range cutLibs[name] {
						libClauses = append(libClauses, MustParse(src))
					}
				}
			}
		}
		// helper facts
		for _, i := range []int64{1, 2, 3} {
			pr.Clauses = append(pr.Clauses, rt.C("n", rt.I(i)))
		}
		pr.Clauses = append(pr.Clauses, rt.C("m", rt.A("a")), rt.C("m", rt.A("b")))
		pr.Clauses = append(pr.Clauses, libClauses...)
		if x.p(6, "table") {
			// a table of 30-70 facts in the middle of the text (predicates before and after it)
			x.sigs = append(x.sigs, sig{"tb", 1})
			for i, n := 1, x.n(30, 70, "tablesize"); i <= n; i++ {
				pr.Clauses = append(pr.Clauses, rt.C("tb", rt.I(int64(100+i))))
			}
		}
		for _, s := range user {
			nc := x.n(1, 4, "nclauses")
			for i := 0; i < nc; i++ {
				pr.Clauses = append(pr.Clauses, x.clause(s))
			}
		}
		if f.Db {
			pr.Dynamic = []string{"d/1", "e/2"}
			nd := x.n(0, 3, "ninitial")
			for i := 0; i < nd; i++ {
				x.nvars = 0
				pr.Clauses = append(pr.Clauses, x.dbTerm())
			}
		}
		x.nvars = 0
		pr.Query = x.conj(2, 3, f.Cut)
		if x.p(70, "querystartscall") {
			pr.Query = rt.C(",", x.userCall(), pr.Query)
		}
		pr.ViaAssert = x.p(30, "viaassert")
		if f.Flags {
			// (rapid favours small values: the non-default settings sit on the largest)
			switch x.n(0, 11, "dqflag") {
			case 11:
				pr.DQ = "codes"
			case 10:
				pr.DQ = "atom"
			}
			pr.UnknownFail = x.n(0, 11, "unknownflag") == 11
		}
		if x.deep {
			pr.Deep = true
			pr.Clauses = append(pr.Clauses, MustParse("down(0)"), MustParse("down(N) :- N > 0, M is N - 1, down(M)"))
		}
		return pr
	})
}

// Mode is the double_quotes value in force.
func (p *Program) Mode() string {
	if p.DQ == "" {
		return "chars"
	}
	return p.DQ
}

// FlagText is the text that sets the program's flags (loaded separately, before the program: a parser keeps the
// double_quotes value it was created with).
func (p *Program) FlagText() string {
	s := ""
	if p.DQ != "" {
		s += ":- set_prolog_flag(double_quotes, " + p.DQ + ").\n"
	}
	if p.UnknownFail {
		s += ":- set_prolog_flag(unknown, fail).\n"
	}
	return s
}

// Vars returns the query's variable ids in order of first occurrence. Ids >= 900 are anonymous
// (they stand for '_': e.g. the context argument of error/2 in a catcher) and are not part of the answer.
func (p *Program) Vars() []int64 {
	var out []int64
	for _, id := range p.Query.Vars(nil) {
		if id < 900 {
			out = append(out, id)
		}
	}
	return out
}

// ClauseText renders one clause as source text (variables named per clause).
func ClauseText(c *rt.Term) string {
	ids := c.Vars(nil)
	names := map[int64]string{}
	for _, id := range ids {
		names[id] = fmt.Sprintf("V%d", id)
		if id%3 == 1 { // a named variable may start with an underscore; it is a variable like any other (only _ is anonymous)
			names[id] = fmt.Sprintf("_V%d", id)
		}
	}
	return TextStr(c, names) + "."
}

// Text renders the program as source text.
func (p *Program) Text() string {
	var b strings.Builder
	for _, d := range p.Dynamic {
		b.WriteString(":- dynamic(" + d + ").\n")
	}
	// clauses of one predicate are kept together by construction except helper/db facts; declare everything discontiguous-safe by grouping
	for _, c := range p.Grouped() {
		b.WriteString(ClauseText(c))
		b.WriteString("\n")
	}
	return b.String()
}

// Grouped returns the clauses stably grouped by predicate (the loader insists on contiguity).
func (p *Program) Grouped() []*rt.Term {
	var order []string
	groups := map[string][]*rt.Term{}
	for _, c := range p.Clauses {
		h := c
		if c.Is(":-", 2) {
			h = c.A[0]
		}
		k := fmt.Sprintf("%s/%d", h.S, len(h.A))
		if _, ok := groups[k]; !ok {
			order = append(order, k)
		}
		groups[k] = append(groups[k], c)
	}
	var out []*rt.Term
	for _, k := range order {
		out = append(out, groups[k]...)
	}
	return out
}

// QueryText renders the query with variables named Q<id>; returns the text and the names in order.
func (p *Program) QueryText() (string, []string) {
	names := map[int64]string{}
	var ns []string
	for _, id := range p.Query.Vars(nil) {
		if id >= 900 {
			names[id] = fmt.Sprintf("_A%d", id)
			continue
		}
		names[id] = fmt.Sprintf("Q%d", id)
		ns = append(ns, names[id])
	}
	return TextStr(p.Query, names) + ".", ns
}

func (p *Program) String() string {
	q, _ := p.QueryText()
	return p.FlagText() + p.Text() + "?- " + q
}
