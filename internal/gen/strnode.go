package gen

import (
	"fmt"
	"strings"

	"verif/internal/rt"
)

// Str is a double-quoted string literal node: '$str'(Text). Text rendering writes "Text"; Plain
// expands it to what the literal denotes under the double_quotes flag.
func Str(s string) *rt.Term { return rt.C("$str", rt.A(s)) }

// Plain replaces every string node by its denotation: mode "codes", "chars" or "atom".
func Plain(t *rt.Term, mode string) *rt.Term {
	if t.K != rt.Comp {
		return t
	}
	if t.Is("$str", 1) {
		switch mode {
		case "atom":
			return rt.A(t.A[0].S)
		}
		var es []*rt.Term
		for _, r := range t.A[0].S {
			if mode == "chars" {
				es = append(es, rt.A(string(r)))
			} else {
				es = append(es, rt.I(int64(r)))
			}
		}
		return rt.List(es, nil)
	}
	args := make([]*rt.Term, len(t.A))
	for i, a := range t.A {
		args[i] = Plain(a, mode)
	}
	return rt.C(t.S, args...)
}

// TextStr renders a term with string nodes as double-quoted literals (only plain ASCII letters are used in them).
func TextStr(t *rt.Term, names map[int64]string) string {
	var strs []string
	var rec func(t *rt.Term) *rt.Term
	rec = func(t *rt.Term) *rt.Term {
		if t.K != rt.Comp {
			return t
		}
		if t.Is("$str", 1) {
			strs = append(strs, t.A[0].S)
			return rt.A(fmt.Sprintf("zzstr%dzz", len(strs)-1))
		}
		args := make([]*rt.Term, len(t.A))
		for i, a := range t.A {
			args[i] = rec(a)
		}
		return rt.C(t.S, args...)
	}
	out := rec(t).Text(names)
	for i, s := range strs {
		out = strings.ReplaceAll(out, fmt.Sprintf("zzstr%dzz", i), "\""+s+"\"")
	}
	return out
}
