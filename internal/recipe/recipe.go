// Package recipe holds the construction recipes through which one abstract list can be built in
// the system under test (text syntax, built-in predicates, Go constructors) and the term generator
// shared by C02 and C08.
package recipe

import (
	"fmt"
	"math"
	"strings"

	"github.com/ichiban/prolog/engine"
	"pgregory.net/rapid"

	"verif/internal/rt"
)

// ---- text recipes ---------------------------------------------------------------------------------

const (
	recBracket = iota
	recDot
	recAppend
	recString
	recAtomChars
	recUniv
	recStrAppend
	recLength
	recFindall
	recCopy
	NRecipes
)

var RecipeNames = []string{"bracket", "dot_compound", "append", "string_literal", "atom_chars_codes", "univ", "string_append", "length_skeleton", "findall", "copy_term"}

type Emitter struct {
	Rec     []int
	pos     int
	Aux     *int
	Prelude *[]string
	DQ      string
	Used    map[string]bool
	Names   map[int64]string
}

func (e *Emitter) next() int {
	if len(e.Rec) == 0 {
		return recBracket
	}
	r := e.Rec[e.pos%len(e.Rec)]
	e.pos++
	return r % NRecipes
}

func (e *Emitter) fresh() string {
	*e.Aux++
	return fmt.Sprintf("L%d", *e.Aux)
}

func bracket(es []string, tail string) string {
	if len(es) == 0 {
		return tail
	}
	if tail == "[]" {
		return "[" + strings.Join(es, ",") + "]"
	}
	return "[" + strings.Join(es, ",") + "|" + tail + "]"
}

// stringable: the elements are what a double-quoted literal denotes under the flag.
func (e *Emitter) stringable(elems []*rt.Term) (string, bool) {
	var sb strings.Builder
	for _, el := range elems {
		switch {
		case e.DQ == "chars" && el.K == rt.Atom && len([]rune(el.S)) == 1 && StrChar([]rune(el.S)[0]):
			sb.WriteString(el.S)
		case e.DQ == "codes" && el.K == rt.Int && StrChar(rune(el.I)):
			sb.WriteRune(rune(el.I))
		default:
			return "", false
		}
	}
	return sb.String(), len(elems) > 0
}

// charsOrCodes: the text and kind ("chars" / "codes") of a non-empty list of one-character atoms or of codes.
func charsOrCodes(elems []*rt.Term) (string, string) {
	var sb strings.Builder
	kind := ""
	for _, el := range elems {
		switch {
		case el.K == rt.Atom && len([]rune(el.S)) == 1 && StrChar([]rune(el.S)[0]) && kind != "codes":
			kind = "chars"
			sb.WriteString(el.S)
		case el.K == rt.Int && StrChar(rune(el.I)) && kind != "chars":
			kind = "codes"
			sb.WriteRune(rune(el.I))
		default:
			return "", ""
		}
	}
	return sb.String(), kind
}

// StrChar: characters used in string-like lists (letters that may stand unescaped in a double-quoted literal)
func StrChar(r rune) bool {
	return r >= 'a' && r <= 'z' || r == 'é' || r == '日' || r == '本'
}

var StrChars = []rune{'a', 'b', 'c', 'd', 'é', '日', '本'}

func ground(ts []*rt.Term) bool {
	for _, t := range ts {
		if len(t.Vars(nil)) > 0 {
			return false
		}
	}
	return true
}

func (e *Emitter) Emit(t *rt.Term) string {
	switch t.K {
	case rt.Var:
		return e.Names[t.I]
	case rt.Comp:
		if !t.Is(".", 2) {
			as := make([]string, len(t.A))
			for i, a := range t.A {
				as[i] = e.Emit(a)
			}
			return rt.QuoteAtom(t.S) + "(" + strings.Join(as, ",") + ")"
		}
	default:
		return t.Text(e.Names)
	}
	elems, rest := t.Unlist()
	es := make([]string, len(elems))
	for i, el := range elems {
		es[i] = e.Emit(el)
	}
	tail := e.Emit(rest)
	proper := rest.IsAtom("[]")
	str, isStr := e.stringable(elems)
	r := e.next()
	if _, kind := charsOrCodes(elems); kind != "" && !isStr && proper && r%2 == 0 {
		r = recAtomChars // a list of the other string kind (chars under codes or the reverse)
	}
	if isStr {
		// a string-like list: prefer the string representations (they are what the property singles out)
		switch r % 4 {
		case 0, 1:
			if proper {
				r = []int{recString, recAtomChars}[r%4]
			} else {
				r = recStrAppend
			}
		case 2:
			r = recBracket
		}
	}
	use := func(n string) { e.Used[n] = true }
	switch r {
	case recDot:
		use("dot_compound")
		s := tail
		for i := len(es) - 1; i >= 0; i-- {
			s = "'.'(" + es[i] + "," + s + ")"
		}
		return s
	case recAppend:
		use("append")
		k := 1 + e.pos%len(es)
		l := e.fresh()
		*e.Prelude = append(*e.Prelude, fmt.Sprintf("append(%s, %s, %s)", bracket(es[:k], "[]"), bracket(es[k:], tail), l))
		return l
	case recString:
		if isStr && proper {
			use("string_literal")
			return "\"" + str + "\""
		}
	case recAtomChars:
		// atom_chars/2 for a list of one-character atoms, atom_codes/2 for a list of codes, whatever the flag
		if txt, kind := charsOrCodes(elems); kind != "" && proper {
			use("atom_chars_codes")
			l := e.fresh()
			*e.Prelude = append(*e.Prelude, fmt.Sprintf("atom_%s(%s, %s)", kind, rt.QuoteAtom(txt), l))
			return l
		}
	case recUniv:
		use("univ")
		l := e.fresh()
		*e.Prelude = append(*e.Prelude, fmt.Sprintf("%s =.. ['.', %s, %s]", l, es[0], bracket(es[1:], tail)))
		return l
	case recStrAppend:
		if isStr {
			use("string_append")
			l := e.fresh()
			*e.Prelude = append(*e.Prelude, fmt.Sprintf("append(\"%s\", %s, %s)", str, tail, l))
			return l
		}
	case recLength:
		if proper {
			use("length_skeleton")
			l := e.fresh()
			*e.Prelude = append(*e.Prelude, fmt.Sprintf("length(%s, %d)", l, len(es)), fmt.Sprintf("%s = %s", l, bracket(es, "[]")))
			return l
		}
	case recFindall:
		if proper && ground(elems) {
			use("findall")
			l, x := e.fresh(), e.fresh()
			*e.Prelude = append(*e.Prelude, fmt.Sprintf("findall(%s, member(%s, %s), %s)", x, x, bracket(es, "[]"), l))
			return l
		}
	case recCopy:
		if len(t.Vars(nil)) == 0 { // copy_term renames variables: only for ground lists
			use("copy_term")
			l := e.fresh()
			*e.Prelude = append(*e.Prelude, fmt.Sprintf("copy_term(%s, %s)", bracket(es, tail), l))
			return l
		}
	}
	use("bracket")
	return bracket(es, tail)
}

// ---- Go constructors --------------------------------------------------------------------------------

const (
	goList = iota
	goPartial
	goCharList
	goCodeList
	goDotApply
	NGoRecipes
)

var GoRecipeNames = []string{"engine.List", "engine.PartialList", "engine.CharList", "engine.CodeList", "Atom('.').Apply"}

type GoBuilder struct {
	Rec  []int
	pos  int
	Vars map[int64]engine.Variable
	Used map[string]bool
}

func (g *GoBuilder) next() int {
	if len(g.Rec) == 0 {
		return goList
	}
	r := g.Rec[g.pos%len(g.Rec)]
	g.pos++
	return r % NGoRecipes
}

func (g *GoBuilder) Build(t *rt.Term) engine.Term {
	switch t.K {
	case rt.Var:
		if v, ok := g.Vars[t.I]; ok {
			return v
		}
		v := engine.NewVariable()
		g.Vars[t.I] = v
		return v
	case rt.Atom:
		return engine.NewAtom(t.S)
	case rt.Int:
		return engine.Integer(t.I)
	case rt.Float:
		return engine.Float(t.F)
	}
	if !t.Is(".", 2) {
		args := make([]engine.Term, len(t.A))
		for i, a := range t.A {
			args[i] = g.Build(a)
		}
		return engine.NewAtom(t.S).Apply(args...)
	}
	elems, rest := t.Unlist()
	es := make([]engine.Term, len(elems))
	for i, e := range elems {
		es[i] = g.Build(e)
	}
	tail := g.Build(rest)
	proper := rest.IsAtom("[]")
	chars, codes := true, true
	var sb strings.Builder
	for _, e := range elems {
		if !(e.K == rt.Atom && len([]rune(e.S)) == 1) {
			chars = false
		}
		if !(e.K == rt.Int && e.I > 0 && e.I < 0x10FFFF && (e.I < 0xD800 || e.I > 0xDFFF)) {
			codes = false
		}
	}
	r := g.next()
	if len(elems) > 0 && (chars || codes) && r%3 != 2 { // string-like: prefer the string representations
		r = goCharList
		if codes {
			r = goCodeList
		}
	}
	switch {
	case r == goCharList && chars && proper:
		for _, e := range elems {
			sb.WriteString(e.S)
		}
		g.Used["engine.CharList"] = true
		return engine.CharList(sb.String())
	case r == goCodeList && codes && proper:
		for _, e := range elems {
			sb.WriteRune(rune(e.I))
		}
		g.Used["engine.CodeList"] = true
		return engine.CodeList(sb.String())
	case r == goPartial || (r == goCharList && chars) || (r == goCodeList && codes):
		// PartialList over a prefix that may itself be a string representation
		if (r == goCharList && chars) || (r == goCodeList && codes) {
			g.Used["engine.PartialList(string prefix)"] = true
		} else {
			g.Used["engine.PartialList"] = true
		}
		return engine.PartialList(tail, es...)
	case r == goDotApply:
		g.Used["Atom('.').Apply"] = true
		out := tail
		for i := len(es) - 1; i >= 0; i-- {
			out = engine.NewAtom(".").Apply(es[i], out)
		}
		return out
	}
	if proper {
		g.Used["engine.List"] = true
		return engine.List(es...)
	}
	g.Used["engine.PartialList"] = true
	return engine.PartialList(tail, es...)
}

// ---- generators -----------------------------------------------------------------------------------------

// G is the term generator state.
type G struct {
	T  *rapid.T
	DQ string
}

func (x *G) N(lo, hi int, l string) int {
	if hi <= lo {
		return lo
	}
	return lo + int(rapid.Uint64().Draw(x.T, l)%uint64(hi-lo+1))
}
func (x *G) P(pc int, l string) bool { return int(rapid.Uint64().Draw(x.T, l)%100) < pc }

var AtomPool = []string{"a", "b", "c", "[]", "", "é", "日本", "f", "g", "\U0010FFFF", "\x00"}

func (x *G) Atomic() *rt.Term {
	switch k := x.N(0, 9, "atomic"); {
	case k < 5:
		return rt.A(AtomPool[x.N(0, len(AtomPool)-1, "atom")])
	case k < 6:
		return rt.A([]string{"x", "y", "z"}[x.N(0, 2, "char")])
	case k < 8:
		if x.DQ == "codes" && x.P(60, "codeint") {
			return rt.I(int64('a' + x.N(0, 3, "code")))
		}
		if x.P(15, "extremeint") { // integers whose difference does not fit in 64 bits
			return rt.I([]int64{math.MaxInt64, math.MinInt64, math.MaxInt64 - 1, math.MinInt64 + 1, 1 << 62, -(1 << 62) - 1, -1}[x.N(0, 6, "xi")])
		}
		return rt.I(int64(x.N(-1, 2, "int")))
	default:
		return rt.F(float64(x.N(0, 2, "float")) / 2)
	}
}

func (x *G) Term(d int) *rt.Term {
	if d <= 0 || x.P(25, "leaf") {
		if x.P(35, "var") {
			return rt.V(int64(x.N(0, NPool-1, "v")))
		}
		return x.Atomic()
	}
	switch k := x.N(0, 11, "shape"); {
	case k < 1:
		return rt.C("f", x.Term(d-1))
	case k < 2:
		return rt.C("f", x.Term(d-1), x.Term(d-1)) // same name, other arity
	case k < 3:
		return rt.C("g", x.Term(d-1), x.Term(d-1))
	case k < 4:
		return rt.C("g", x.Term(d-1), x.Term(d-1), x.Term(d-1))
	case k < 5:
		if x.P(50, "dot1") {
			return rt.C(".", x.Term(d-1)) // '.'/1
		}
		return rt.C(".", x.Term(d-1), x.Term(d-1), x.Term(d-1)) // '.'/3
	case k < 7:
		// string-like list
		n := x.N(1, 4, "strlen")
		es := make([]*rt.Term, n)
		for i := range es {
			ch := StrChars[x.N(0, len(StrChars)-1, "c")]
			if x.DQ == "codes" {
				es[i] = rt.I(int64(ch))
			} else {
				es[i] = rt.A(string(ch))
			}
		}
		var tail *rt.Term
		if x.P(30, "strpartial") {
			tail = rt.V(int64(x.N(0, NPool-1, "tv")))
		}
		return rt.List(es, tail)
	default:
		n := x.N(0, 4, "listlen")
		es := make([]*rt.Term, n)
		for i := range es {
			es[i] = x.Term(d - 1)
		}
		var tail *rt.Term
		switch k := x.N(0, 9, "tail"); {
		case k < 3:
			tail = rt.V(int64(x.N(0, NPool-1, "tv")))
		case k < 4 && n > 0:
			tail = x.Atomic() // improper
		}
		if n == 0 && tail == nil {
			return rt.Nil
		}
		return rt.List(es, tail)
	}
}

// NPool is the size of the shared variable pool.
const NPool = 5

// PoolNames names variables V0, V1, ...
func PoolNames() map[int64]string {
	m := map[int64]string{}
	for i := 0; i < 400; i++ {
		m[int64(i)] = fmt.Sprintf("V%d", i)
	}
	return m
}
