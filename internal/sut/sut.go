// Package sut adapts the real interpreter (github.com/ichiban/prolog, built from /repo) to the
// harness: fresh interpreter per case, deterministic step budget, structural extraction of
// answers and errors (never through the writer).
package sut

import (
	"bytes"
	"context"
	"errors"
	"fmt"
	"sort"
	"strings"
	"sync/atomic"
	"time"

	"github.com/ichiban/prolog"
	"github.com/ichiban/prolog/engine"

	"verif/internal/rt"
)

// ErrBudget is the error of a StepCtx whose budget is used up.
var ErrBudget = errors.New("verif: step budget exhausted")

// StepCtx is a context whose Done() counts calls: Promise.Force polls it once per trampoline
// step, so it is a deterministic step counter and a deterministic cancellation instant.
type StepCtx struct {
	limit  int64
	n      atomic.Int64
	after  atomic.Int64 // polls observed after the limit was reached
	closed chan struct{}
	open   chan struct{}
	err    error
}

// NewStepCtx cancels at poll number limit (limit <= 0: never).
func NewStepCtx(limit int64, err error) *StepCtx {
	c := &StepCtx{limit: limit, closed: make(chan struct{}), open: nil, err: err}
	close(c.closed)
	if err == nil {
		c.err = ErrBudget
	}
	return c
}

func (c *StepCtx) Deadline() (time.Time, bool) { return time.Time{}, false }
func (c *StepCtx) Value(any) any               { return nil }
func (c *StepCtx) Done() <-chan struct{} {
	n := c.n.Add(1)
	if c.limit > 0 && n >= c.limit {
		c.after.Add(1)
		return c.closed
	}
	return c.open // nil channel: never ready
}
func (c *StepCtx) Err() error {
	if c.limit > 0 && c.n.Load() >= c.limit {
		return c.err
	}
	return nil
}

// Steps is the number of polls so far.
func (c *StepCtx) Steps() int64 { return c.n.Load() }

// After is the number of polls that saw the cancelled state.
func (c *StepCtx) After() int64 { return c.after.Load() }

// I is one interpreter with captured output.
type I struct {
	P   *prolog.Interpreter
	Out *bytes.Buffer
}

type emptyReader struct{}

func (emptyReader) Read([]byte) (int, error) { return 0, errEOF }

var errEOF = fmt.Errorf("EOF")

// New builds a fresh interpreter: user_input is empty, user_output is captured. halt/0,1 are
// replaced (they would exit the test process).
func New() *I {
	out := &bytes.Buffer{}
	p := prolog.New(strings.NewReader(""), out)
	halt := func(_ *engine.VM, _ engine.Term, k engine.Cont, env *engine.Env) *engine.Promise {
		return engine.Error(errors.New("verif: halt/1 called"))
	}
	p.Register1(engine.NewAtom("halt"), halt)
	p.Register0(engine.NewAtom("halt"), func(vm *engine.VM, k engine.Cont, env *engine.Env) *engine.Promise {
		return engine.Error(errors.New("verif: halt/0 called"))
	})
	return &I{P: p, Out: out}
}

// ErrInfo classifies a terminating error.
type ErrInfo struct {
	Kind string   `json:"kind"` // ball | budget | context | panic | go
	Ball *rt.Term `json:"ball,omitempty"`
	Msg  string   `json:"msg,omitempty"`
}

func (e *ErrInfo) String() string {
	if e == nil {
		return "<none>"
	}
	if e.Kind == "ball" {
		return "ball " + e.Ball.MaskErrorContext().String()
	}
	return e.Kind + ": " + e.Msg
}

// Classify turns a Go error from the interpreter into ErrInfo.
func Classify(err error) *ErrInfo {
	if err == nil {
		return nil
	}
	var ex engine.Exception
	if errors.As(err, &ex) {
		return &ErrInfo{Kind: "ball", Ball: Convert(ex.Term(), nil)}
	}
	switch {
	case errors.Is(err, ErrBudget):
		return &ErrInfo{Kind: "budget", Msg: err.Error()}
	case errors.Is(err, context.Canceled), errors.Is(err, context.DeadlineExceeded):
		return &ErrInfo{Kind: "context", Msg: err.Error()}
	case strings.HasPrefix(err.Error(), "panic:"):
		return &ErrInfo{Kind: "panic", Msg: err.Error()}
	}
	return &ErrInfo{Kind: "go", Msg: err.Error()}
}

// Convert walks a term through env and the Compound interface.
func Convert(t engine.Term, env *engine.Env) *rt.Term {
	n := 0
	return convert(t, env, 0, &n)
}

// MaxNodes bounds a structural conversion (answers can be DAGs of exponential tree size).
const MaxNodes = 300000

func convert(t engine.Term, env *engine.Env, depth int, cnt *int) *rt.Term {
	*cnt++
	if depth > 100000 || *cnt > MaxNodes {
		return rt.O("too_large")
	}
	switch x := env.Resolve(t).(type) {
	case engine.Variable:
		return rt.V(int64(x))
	case engine.Atom:
		return rt.A(x.String())
	case engine.Integer:
		return rt.I(int64(x))
	case engine.Float:
		return rt.F(float64(x))
	case engine.Compound:
		n := x.Arity()
		name := x.Functor().String()
		// iterate long lists without recursion on the tail
		if name == "." && n == 2 {
			var es []*rt.Term
			var cur engine.Term = x
			for {
				c, ok := env.Resolve(cur).(engine.Compound)
				if !ok || c.Arity() != 2 || c.Functor().String() != "." {
					break
				}
				es = append(es, convert(c.Arg(0), env, depth+1, cnt))
				cur = c.Arg(1)
				if *cnt > MaxNodes {
					return rt.O("too_large")
				}
			}
			return rt.List(es, convert(cur, env, depth+1, cnt))
		}
		args := make([]*rt.Term, n)
		for i := 0; i < n; i++ {
			args[i] = convert(x.Arg(i), env, depth+1, cnt)
		}
		return rt.C(name, args...)
	case nil:
		return rt.O("nil")
	default:
		return rt.O(fmt.Sprintf("%T", x))
	}
}

// Box is a Scanner that captures the answer term structurally.
type Box struct{ T *rt.Term }

// Scan implements prolog.Scanner.
func (b *Box) Scan(_ *engine.VM, term engine.Term, env *engine.Env) error {
	b.T = Convert(term, env)
	return nil
}

// Result of running a query.
type Result struct {
	Vars      []string     `json:"vars"`
	Answers   [][]*rt.Term `json:"answers"` // canonical per answer tuple (variables renamed in order of first occurrence)
	Exhausted bool         `json:"exhausted"`
	Truncated bool         `json:"truncated"` // stopped after max answers
	Err       *ErrInfo     `json:"err,omitempty"`
	Output    string       `json:"output"`
	Steps     int64        `json:"steps"`
}

// Query runs q (text ending in '.') and collects up to max answers under a step budget
// (budget <= 0: unlimited). vars == nil means all named variables of the query, sorted.
func (i *I) Query(q string, vars []string, max int, budget int64, args ...any) Result {
	ctx := NewStepCtx(budget, nil)
	return i.QueryCtx(ctx, q, vars, max, args...)
}

// QueryCtx is Query under the caller's context.
func (i *I) QueryCtx(ctx context.Context, q string, vars []string, max int, args ...any) Result {
	var res Result
	start := i.Out.Len()
	sols, err := i.P.QueryContext(ctx, q, args...)
	if err != nil {
		res.Err = Classify(err)
		return res
	}
	defer sols.Close()
	for {
		if max >= 0 && len(res.Answers) >= max {
			res.Truncated = true
			break
		}
		if !sols.Next() {
			if err := sols.Err(); err != nil {
				res.Err = Classify(err)
			} else {
				res.Exhausted = true
			}
			break
		}
		m := map[string]Box{}
		if err := sols.Scan(m); err != nil {
			res.Err = &ErrInfo{Kind: "go", Msg: "scan: " + err.Error()}
			break
		}
		if vars == nil {
			for k := range m {
				if !strings.HasPrefix(k, "_") {
					vars = append(vars, k)
				}
			}
			sort.Strings(vars)
		}
		tuple := make([]*rt.Term, len(vars))
		for j, v := range vars {
			if b, ok := m[v]; ok && b.T != nil {
				tuple[j] = b.T
			} else {
				tuple[j] = rt.O("missing:" + v)
			}
		}
		res.Answers = append(res.Answers, rt.Canon(tuple))
	}
	res.Vars = vars
	res.Output = i.Out.String()[start:]
	if sc, ok := ctx.(*StepCtx); ok {
		res.Steps = sc.Steps()
	}
	return res
}

// Exec loads program text under a step budget.
func (i *I) Exec(text string, budget int64, args ...any) *ErrInfo {
	ctx := NewStepCtx(budget, nil)
	return Classify(i.P.ExecContext(ctx, text, args...))
}

// Formal returns F for a ball error(F, _), else nil.
func Formal(e *ErrInfo) *rt.Term {
	if e == nil || e.Kind != "ball" || e.Ball == nil || !e.Ball.Is("error", 2) {
		return nil
	}
	return e.Ball.A[0]
}

// ParseTerm reads one term (text without the end '.') with a fresh interpreter's parser and
// converts it structurally; variables are renamed 0,1,2… in order of first occurrence. Used
// for hand-written scenario tables and library templates only (the same rt term is then given
// to both the reference and, rendered by rt.Text, to the real interpreter).
func ParseTerm(src string) (*rt.Term, error) {
	p := prolog.New(nil, nil)
	ps := engine.NewParser(&p.VM, strings.NewReader(src+" ."))
	t, err := ps.Term()
	if err != nil {
		return nil, fmt.Errorf("parse %q: %w", src, err)
	}
	return rt.Canon([]*rt.Term{Convert(t, nil)})[0], nil
}

// ParseTermNames is ParseTerm that also returns the source names of the variables, indexed by
// their canonical ids.
func ParseTermNames(src string) (*rt.Term, []string, error) {
	p := prolog.New(nil, nil)
	ps := engine.NewParser(&p.VM, strings.NewReader(src+" ."))
	t, err := ps.Term()
	if err != nil {
		return nil, nil, fmt.Errorf("parse %q: %w", src, err)
	}
	raw := Convert(t, nil)
	byID := map[int64]string{}
	for _, v := range ps.Vars {
		byID[int64(v.Variable)] = v.Name.String()
	}
	ids := raw.Vars(nil)
	names := make([]string, len(ids))
	for i, id := range ids {
		names[i] = byID[id]
	}
	return rt.Canon([]*rt.Term{raw})[0], names, nil
}
