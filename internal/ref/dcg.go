package ref

// phrase/2,3: the grammar body is interpreted directly on the difference list (no translation).
func (r *run) phrase(body, s0, s Term, f *frame) (bool, error) {
	m := r.m
	b := deref(body)
	switch b.(type) {
	case *Var:
		return false, m.throwErr(Atom("instantiation_error"))
	case Int, Flt:
		return false, m.throwErr(mk("type_error", Atom("callable"), b))
	}
	m.Stats.CutLocal++
	r.goals = &frame{goal: mk("$dcg", body, s0, s), B: len(r.cps), K: f.K, next: r.goals}
	return true, nil
}

// dcg interprets a grammar body directly on the difference list s0-s.
func (r *run) dcg(body, s0, s Term, f *frame) (bool, error) {
	m := r.m
	m.Stats.DcgSteps++
	push := func(goal Term, B int, K *catchRec) {
		r.goals = &frame{goal: goal, B: B, K: K, next: r.goals}
	}
	b := deref(body)
	switch x := b.(type) {
	case *Var:
		return false, m.throwErr(Atom("instantiation_error"))
	case Int, Flt:
		return false, m.throwErr(mk("type_error", Atom("callable"), b))
	case Atom:
		switch x {
		case "[]":
			return m.unify(s0, s), nil
		case "!":
			if len(r.cps) > f.B {
				m.Stats.CutsEffective++
			}
			r.cps = r.cps[:f.B]
			return m.unify(s0, s), nil
		}
		push(mk(string(x), s0, s), f.B, f.K)
		return true, nil
	case *Comp:
		a := x.args
		switch key(x.f, len(a)) {
		case "./2":
			// terminal list
			var es []Term
			t := Term(x)
			for {
				c, ok := isComp(t, ".", 2)
				if !ok {
					break
				}
				es = append(es, c.args[0])
				t = c.args[1]
			}
			if deref(t) != Term(Nil) {
				return false, m.throwErr(mk("type_error", Atom("list"), b))
			}
			return m.unify(s0, list(es, s)), nil
		case ",/2":
			mid := m.newVar()
			push(mk("$dcg", a[1], mid, s), f.B, f.K)
			push(mk("$dcg", a[0], s0, mid), f.B, f.K)
			return true, nil
		case ";/2", "|/2":
			if ite, ok := isComp(a[0], "->", 2); ok && x.f == ";" {
				mid := m.newVar()
				push(mk(";", mk("->", mk("$dcg", ite.args[0], s0, mid), mk("$dcg", ite.args[1], mid, s)), mk("$dcg", a[1], s0, s)), f.B, f.K)
				return true, nil
			}
			push(mk(";", mk("$dcg", a[0], s0, s), mk("$dcg", a[1], s0, s)), f.B, f.K)
			return true, nil
		case "->/2":
			mid := m.newVar()
			push(mk("->", mk("$dcg", a[0], s0, mid), mk("$dcg", a[1], mid, s)), f.B, f.K)
			return true, nil
		case "\\+/1":
			push(mk("=", s0, s), f.B, f.K)
			push(mk("\\+", mk("$dcg", a[0], s0, m.newVar())), f.B, f.K)
			return true, nil
		case "{}/1":
			push(mk("=", s0, s), f.B, f.K)
			push(a[0], f.B, f.K)
			return true, nil
		case "call/1", "call/2", "call/3", "call/4":
			push(mk("call", append(append([]Term{}, a...), s0, s)...), f.B, f.K)
			return true, nil
		case "phrase/1":
			push(mk("phrase", a[0], s0, s), f.B, f.K)
			return true, nil
		}
		push(&Comp{x.f, append(append([]Term{}, a...), s0, s)}, f.B, f.K)
		return true, nil
	}
	return false, nil
}

// addRule loads a grammar rule H --> B (or H, PB --> B) as a clause whose body interprets B.
func (m *Machine) addRule(rule Term, front bool) error {
	c, _ := isComp(rule, "-->", 2)
	head, body := deref(c.args[0]), c.args[1]
	s0, s := m.newVar(), m.newVar()
	var goal Term
	if pb, ok := isComp(head, ",", 2); ok {
		head = deref(pb.args[0])
		mid := m.newVar()
		// S = PB ++ mid
		var es []Term
		t := pb.args[1]
		for {
			cc, ok := isComp(t, ".", 2)
			if !ok {
				break
			}
			es = append(es, cc.args[0])
			t = cc.args[1]
		}
		goal = mk(",", mk("$dcg", body, s0, mid), mk("=", s, list(es, mid)))
	} else {
		goal = mk("$dcg", body, s0, s)
	}
	var h Term
	switch x := head.(type) {
	case Atom:
		h = mk(string(x), s0, s)
	case *Comp:
		h = &Comp{x.f, append(append([]Term{}, x.args...), s0, s)}
	default:
		return m.throwErr(mk("type_error", Atom("callable"), head))
	}
	return m.addClause(mk(":-", h, goal), front, false)
}
