package ref

// Self-test of the reference machine: worked examples of ISO/IEC 13211-1 (7.8 control
// constructs, 8.9 clause creation and destruction, 8.10 all solutions) and Cor.2 with their
// expected outcomes. It tests the oracle itself, independently of the behaviour of the system
// under test (helper text is parsed with the engine's reader only to obtain terms). Every
// reference-based check runs it first; a failure is an infrastructure error, never a verdict.

import (
	"fmt"
	"strings"

	"verif/internal/rt"
	"verif/internal/sut"
)

type example struct {
	prog  string // clauses separated by " | "
	query string
	want  string // answers "X=1,Y=2 ; X=2,Y=3" in query-variable order of first occurrence, or "error(F)", "fail"
	out   string // expected output, if any
}

var isoBase = "n(1) | n(2) | n(3) | m(a) | m(b) | " +
	"foo(X) :- Y is X * 2, throw(test(Y)) | bar(X) :- X = Y, throw(Y) | coo(X) :- throw(X) | car(X) :- X = 1, throw(X) | " +
	"g :- catch(p, _B, write(h2)), fail | g | p | p :- throw(b) | " +
	"twice(!) :- write('C ') | twice(true) :- write('Moss ') | goal((twice(_), !)) | goal(write('Three ')) | " +
	"a(1) | a(2) | legs(A, 6) :- insect(A) | legs(A, 4) :- animal(A) | insect(bee) | insect(ant) | animal(horse) | " +
	"b(1,1) | b(1,1) | b(1,2) | b(2,1) | b(2,2) | b(2,2) | " +
	"d(1, f(_)) | d(2, f(_)) | " +
	"app([], L, L) | app([H|T], L, [H|R]) :- app(T, L, R)"

var examples = []example{
	// 7.8.1 true, 7.8.2 fail, 7.8.3 call
	{"", "true", "yes", ""},
	{"", "fail", "fail", ""},
	{"", "call(!)", "yes", ""},
	{"", "call(fail)", "fail", ""},
	{"", "call((fail, X))", "fail", ""},
	{"", "call((fail, call(1)))", "fail", ""},
	{"", "call((write(3), X))", "error(instantiation_error)", "3"},
	{"", "call((write(3), call(1)))", "error(type_error(callable,1))", "3"},
	{"", "call(X)", "error(instantiation_error)", ""},
	{"", "call(1)", "error(type_error(callable,1))", ""},
	{"", "call((fail, 1))", "error(type_error(callable,(fail , 1)))", ""},
	{"", "call((write(3), 1))", "error(type_error(callable,(write(3) , 1)))", ""},
	{"", "call((1 ; true))", "error(type_error(callable,(1 ; true)))", ""},
	// 7.8.4 cut
	{"", "!", "yes", ""},
	{"", "(!, fail ; true)", "fail", ""},
	{"", "(call(!), fail ; true)", "yes", ""},
	{"", "twice(_), !, write('Forwards '), fail", "fail", "C Forwards "},
	{"", "(! ; write('No ')), write('Cut disjunction '), fail", "fail", "Cut disjunction "},
	{"", "twice(_), (write('No ') ; !), write('Cut '), fail", "fail", "C No Cut Cut "},
	{"", "twice(_), (!, fail ; write('No '))", "fail", "C "},
	{"", "twice(X), call(X), write('Forwards '), fail", "fail", "C Forwards Moss Forwards "},
	{"", "goal(X), call(X), write('Forwards '), fail", "fail", "C Forwards Three Forwards "},
	{"", "twice(_), \\+ (\\+ !), write('Forwards '), fail", "fail", "C Forwards Moss Forwards "},
	{"", "twice(_), once(!), write('Forwards '), fail", "fail", "C Forwards Moss Forwards "},
	{"", "twice(_), call(!), write('Forwards '), fail", "fail", "C Forwards Moss Forwards "},
	// 7.8.5 conjunction, 7.8.6 disjunction, 7.8.7 if-then, 7.8.8 if-then-else
	{"", "X = 1, var(X)", "fail", ""},
	{"", "var(X), X = 1", "X=1", ""},
	{"", "X = true, call(X)", "X=true", ""},
	{"", "(true ; fail)", "yes", ""},
	{"", "(!, fail ; true)", "fail", ""},
	{"", "(! ; call(3))", "yes", ""},
	{"", "(X = 1, ! ; X = 2)", "X=1", ""},
	{"", "(X = 1 ; X = 2)", "X=1 ; X=2", ""},
	{"", "(true -> true)", "yes", ""},
	{"", "(true -> fail)", "fail", ""},
	{"", "(fail -> true)", "fail", ""},
	{"", "(true -> X = 1)", "X=1", ""},
	{"", "((X = 1 ; X = 2) -> true)", "X=1", ""},
	{"", "(true -> (X = 1 ; X = 2))", "X=1 ; X=2", ""},
	{"", "(true -> true ; fail)", "yes", ""},
	{"", "(fail -> true ; true)", "yes", ""},
	{"", "(true -> fail ; fail)", "fail", ""},
	{"", "(fail -> true ; fail)", "fail", ""},
	{"", "(true -> X = 1 ; X = 2)", "X=1", ""},
	{"", "(fail -> X = 1 ; X = 2)", "X=2", ""},
	{"", "(true -> (X = 1 ; X = 2) ; true)", "X=1 ; X=2", ""},
	{"", "((X = 1 ; X = 2) -> true ; true)", "X=1", ""},
	{"", "((!, X = 1, fail) -> true ; fail)", "fail", ""},
	// 7.8.9 catch, 7.8.10 throw
	{"", "catch(foo(5), test(Y), true)", "Y=10", ""},
	{"", "catch(bar(3), Z, true)", "Z=3", ""},
	{"", "catch(true, _, 3)", "yes", ""},
	{"", "catch(true, C, write(demoen)), throw(bla)", "error*bla", ""},
	{"", "catch(car(X), Y, true)", "Y=1", ""},
	{"", "catch(g, C, write(h1))", "yes", "h2"},
	{"", "catch(coo(X), Y, true)", "yes*", ""},
	{"", "catch((n(X), X > 1, throw(big(X))), big(Y), true)", "Y=2", ""},
	{"", "catch(catch(throw(a), b, write(inner)), a, write(outer))", "yes", "outer"},
	{"", "catch(n(X), _, true), X > 1, throw(late(X))", "error*late(2)", ""},
	// 8.9 assert / retract / abolish (on dynamic legs/2, insect/1 etc.)
	{"", "assertz(foo9(1)), assertz(foo9(2)), asserta(foo9(0)), findall(X, foo9(X), L)", "L=[0,1,2]", ""},
	{"", "assertz((foo9(X) :- X > 1)), foo9(2)", "yes*", ""},
	{"", "asserta(_)", "error(instantiation_error)", ""},
	{"", "asserta(4)", "error(type_error(callable,4))", ""},
	{"", "asserta((foo9 :- 4))", "error(type_error(callable,4))", ""},
	{"", "assertz(q9(1)), assertz(q9(2)), assertz(q9(3)), retract(q9(X)), X > 1, findall(Y, q9(Y), L)", "X=2,L=[3] ; X=3,L=[]", ""},
	{"", "assertz(q9(1)), assertz(q9(2)), q9(X), assertz(q9(9)), fail ; findall(Y, q9(Y), L)", "L=[1,2,9,9]", ""},
	{"", "assertz(q9(1)), assertz(q9(2)), retract(q9(X)), asserta(q9(0)), fail ; findall(Y, q9(Y), L)", "L=[0,0]", ""},
	{"", "retract((x9 :- in_eec(Y)))", "fail", ""},
	{"", "assertz(d9(X)), X = 1, retract(d9(Y)), var(Y)", "X=1", ""},
	// 8.10 findall / bagof / setof
	{"", "findall(X, (X = 1 ; X = 2), S)", "S=[1,2]", ""},
	{"", "findall(X + Y, (X = 1), S)", "yes*", ""},
	{"", "findall(X, fail, L)", "L=[]", ""},
	{"", "findall(X, (X = 1 ; X = 1), S)", "S=[1,1]", ""},
	{"", "findall(X, (X = 2 ; X = 1), [1, 2])", "fail", ""},
	{"", "findall(X, (X = 1 ; X = 2), [X, Y])", "X=1,Y=2", ""},
	{"", "findall(X, Goal, S)", "error(instantiation_error)", ""},
	{"", "findall(X, 4, S)", "error(type_error(callable,4))", ""},
	{"", "findall(X, true, [_|1])", "error(type_error(list,*", ""},
	{"", "bagof(X, (X = 1 ; X = 2), S)", "S=[1,2]", ""},
	{"", "bagof(X, (X = 1 ; X = 2), X)", "X=[1,2]", ""},
	{"", "bagof(X, (X = Y ; X = Z), S)", "S=[Y,Z]*", ""},
	{"", "bagof(X, fail, S)", "fail", ""},
	{"", "bagof(1, (Y = 1 ; Y = 2), L)", "Y=1,L=[1] ; Y=2,L=[1]", ""},
	{"", "bagof(f(X, Y), (X = a ; Y = b), L)", "yes*", ""},
	{"", "bagof(X, Y ^ ((X = 1, Y = 1) ; (X = 2, Y = 2)), S)", "S=[1,2]", ""},
	{"", "bagof(X, Y ^ ((X = 1 ; Y = 1) ; (X = 2, Y = 2)), S)", "yes*", ""},
	{"", "bagof(X, b(X, Y), L)", "Y=1,L=[1,1,2] ; Y=2,L=[1,2,2]", ""},
	{"", "setof(X, b(X, Y), L)", "Y=1,L=[1,2] ; Y=2,L=[1,2]", ""},
	{"", "setof(X-Y, b(X, Y), L)", "L=[(1 - 1),(1 - 2),(2 - 1),(2 - 2)]", ""},
	{"", "setof(X, Y ^ b(X, Y), L)", "L=[1,2]", ""},
	{"", "bagof(X, Y ^ Z, L)", "error(instantiation_error)", ""},
	{"", "bagof(X, 1, L)", "error(type_error(callable,1))", ""},
	{"", "setof(X, (X = 2 ; X = 1 ; X = 2), L)", "L=[1,2]", ""},
	{"", "setof(X, member(X, [f(b), f(a), g(a, a), 1, 1.5, z, a]), L)", "L=[1.5,1,a,z,f(a),f(b),g(a,a)]", ""},
	{"", "bagof(N, d(N, W), L)", "yes*", ""},
	{"", "findall(N-L, bagof(X, legs(X, N), L), R)", "R=[(6 - [bee,ant]),(4 - [horse])]", ""},
	// recursion, fresh variables per activation, logical update view in calls
	{"", "app(X, Y, [1,2])", "X=[],Y=[1,2] ; X=[1],Y=[2] ; X=[1,2],Y=[]", ""},
	{"", "app([1,2], [3], L)", "L=[1,2,3]", ""},
	{"", "copy_term(f(X, Y, X), Z), X = 1", "yes*", ""},
	{"", "\\+ \\+ (X = 1), var(X)", "yes*", ""},
	// ISO 7.6.2 body conversion: a variable in a body position is call/1 from the moment the clause is added
	{"", "assertz((k9(V) :- (V ; n(X9)))), findall(y, k9((n(_) -> true)), L)", "L=[y,y,y,y]", ""},
	{"", "G = (n(_) -> true), findall(y, call((G ; true)), L)", "yes*", ""},
}

// SelfTest runs the examples and returns the disagreements (empty = the oracle is sound on them).
func SelfTest() []string {
	var bad []string
	cache := map[string]*rt.Term{}
	for _, ex := range examples {
		m := NewMachine(20000, 2_000_000)
		var clauses []*rt.Term
		text := isoBase
		if ex.prog != "" {
			text += " | " + ex.prog
		}
		for _, c := range strings.Split(text, " | ") {
			t, ok := cache[c]
			if !ok {
				var err error
				if t, err = sut.ParseTerm(c); err != nil {
					return []string{err.Error()}
				}
				cache[c] = t
			}
			clauses = append(clauses, t)
		}
		if err := m.Consult(clauses); err != nil {
			return []string{"consult: " + err.Error()}
		}
		q, names, err := sut.ParseTermNames(ex.query)
		if err != nil {
			return []string{err.Error()}
		}
		res := m.Solve(q, q.Vars(nil), 30)
		if d := res.Discard(); d != "" && d != "sto" {
			bad = append(bad, fmt.Sprintf("?- %s. discarded (%s)", ex.query, d))
			continue
		}
		got := render(res, names)
		want := ex.want
		loose := strings.HasSuffix(want, "*")
		want = strings.TrimSuffix(want, "*")
		ok := got == want
		if loose {
			switch {
			case want == "yes":
				ok = len(res.Answers) >= 1 && res.Ball == nil
			case strings.HasPrefix(want, "error"):
				ok = res.Ball != nil && strings.Contains(res.Ball.String(), want[len("error"):])
			default:
				ok = len(res.Answers) >= 1
			}
		}
		if !ok {
			bad = append(bad, fmt.Sprintf("?- %s.  reference: %s  ISO: %s", ex.query, got, ex.want))
		}
		if ex.out != "" && res.Output != ex.out {
			bad = append(bad, fmt.Sprintf("?- %s.  reference output %q, ISO %q", ex.query, res.Output, ex.out))
		}
	}
	return bad
}

// NExamples is the number of self-test examples.
func NExamples() int { return len(examples) }

// render: "X=1,Y=2 ; ..." over the bound query variables, "yes" for an answer without bindings,
// "fail", "error(Formal)".
func render(res Result, names []string) string {
	if res.Ball != nil {
		if res.Ball.Is("error", 2) {
			return "error(" + res.Ball.A[0].String() + ")"
		}
		return "error*" + res.Ball.String()
	}
	if len(res.Answers) == 0 {
		return "fail"
	}
	var as []string
	for _, a := range res.Answers {
		var bs []string
		for i, t := range a {
			if t.K == rt.Var {
				continue
			}
			if strings.HasPrefix(names[i], "_") {
				continue
			}
			bs = append(bs, names[i]+"="+t.String())
		}
		if len(bs) == 0 {
			as = append(as, "yes")
		} else {
			as = append(as, strings.Join(bs, ","))
		}
	}
	return strings.Join(as, " ; ")
}
