package ref_test

import (
	"testing"

	"verif/internal/ref"
)

func TestISOExamples(t *testing.T) {
	for _, b := range ref.SelfTest() {
		t.Error(b)
	}
	t.Logf("%d examples", ref.NExamples())
}
