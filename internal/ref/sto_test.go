package ref_test

import (
	"testing"

	"verif/internal/gen"
	"verif/internal/ref"
)

// A clash met first from the left does not make a pair safe: another order meets the occurs check.
func TestSTOAnyOrder(t *testing.T) {
	for _, e := range []struct {
		q   string
		sto bool
	}{
		{"[a, X | T] = [b, Y, T]", true},
		{"f(1, X) = f(2, g(X))", true},
		{"f(X, 1) = f(g(X), 2)", true},
		{"f(X, Y) = f(Y, X)", false},
		{"f(1, X) = f(2, g(Y))", false},
		{"f(X, X, Y) = f(f(Y), g(Z), g(X))", true},
	} {
		m := ref.NewMachine(1000, 100000)
		q := gen.MustParse(e.q)
		res := m.Solve(q, q.Vars(nil), 5)
		if res.STO != e.sto {
			t.Errorf("%s: STO = %v, want %v", e.q, res.STO, e.sto)
		}
	}
}
