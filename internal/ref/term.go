// Package ref is the reference Prolog machine used as the oracle for C01, C03, C04, C09, C10,
// C11 and C17: a deliberately naive goal-stack / choice-point-stack / trail interpreter of the
// ISO execution model (DESIGN.md section 2.3.1). It shares no code and no design with the
// system under test.
package ref

import (
	"fmt"
	"sort"
	"strings"

	"verif/internal/rt"
)

// Term is one of *Var, Atom, Int, Flt, *Comp.
type Term interface{}

type Var struct {
	id  int64
	ref Term
	ctx bool // stands for the context argument of a built-in's error term: implementation defined
}
type Atom string
type Int int64
type Flt float64
type Comp struct {
	f    string
	args []Term
}

func deref(t Term) Term {
	for {
		v, ok := t.(*Var)
		if !ok || v.ref == nil {
			return t
		}
		t = v.ref
	}
}

func mk(f string, args ...Term) Term {
	if len(args) == 0 {
		return Atom(f)
	}
	return &Comp{f, args}
}

func list(es []Term, tail Term) Term {
	t := tail
	for i := len(es) - 1; i >= 0; i-- {
		t = mk(".", es[i], t)
	}
	return t
}

var Nil = Atom("[]")

func isComp(t Term, f string, n int) (*Comp, bool) {
	c, ok := deref(t).(*Comp)
	if !ok || c.f != f || len(c.args) != n {
		return nil, false
	}
	return c, true
}

type workExceeded struct{}

// base holds bindings, the work budget and the STO flag.
type base struct {
	trail     []*Var
	sto       bool // a unification was performed that the occurs check would have rejected
	ctxTested bool // an implementation-defined error context decided a unification
	work      int
	maxWork   int
	varSeq    int64
}

func (m *base) newVar() *Var { m.varSeq++; return &Var{id: m.varSeq} }

func (m *base) tick() {
	m.work++
	if m.work > m.maxWork {
		panic(workExceeded{})
	}
}

func (m *base) occursIn(v *Var, t Term) bool {
	m.tick()
	t = deref(t)
	if t == Term(v) {
		return true
	}
	if c, ok := t.(*Comp); ok {
		for _, a := range c.args {
			if m.occursIn(v, a) {
				return true
			}
		}
	}
	return false
}

func (m *base) bind(v *Var, t Term) {
	if v.ctx {
		// the context of a built-in's error is put to the test (unified with something that is not a plain variable:
		// a structured catcher, the context of another error): what happens is up to the implementation
		w, ok := deref(t).(*Var)
		if !ok || w.ctx {
			m.ctxTested = true
		} else if w != v {
			// aliased with a plain variable: that variable now stands for the context too
			w.ref = v
			m.trail = append(m.trail, w)
			return
		}
	}
	if m.occursIn(v, t) {
		m.sto = true
		return
	}
	v.ref = t
	m.trail = append(m.trail, v)
}

func (m *base) undo(mark int) {
	for len(m.trail) > mark {
		m.trail[len(m.trail)-1].ref = nil
		m.trail = m.trail[:len(m.trail)-1]
	}
}

// unify unifies a and b (bindings stay on the trail also when it fails; callers undo). A failure by clash
// is examined once more: ISO 7.3.3 calls a pair subject to occurs check if *some* order of the Herbrand
// algorithm meets a positive occurs check, and the system under test has more than one order (left to
// right in =/2, the tail before the elements for a partial list in a clause head), so a clash found
// first from the left does not make the pair safe.
func (m *base) unify(a, b Term) bool {
	ok := m.unify1(a, b)
	if !ok && !m.sto {
		x, xo := deref(a).(*Comp)
		y, yo := deref(b).(*Comp)
		if xo && yo && x.f == y.f && len(x.args) == len(y.args) && m.cyclicClosure(x, y) {
			m.sto = true
		}
	}
	return ok
}

// cyclicClosure builds the congruence closure of a = b over the current bindings without stopping at
// clashes and reports whether it has a cycle (an over-approximation of "some order meets a positive
// occurs check": every equation any order derives before it stops is in the closure).
func (m *base) cyclicClosure(a, b Term) bool {
	type node struct {
		parent int
		comps  []*Comp
	}
	var nodes []node
	index := map[Term]int{}
	mk := func(t Term) int {
		t = deref(t)
		switch t.(type) {
		case *Var, *Comp:
		default:
			return -1 // atomic: no arguments, never part of a cycle
		}
		if n, ok := index[t]; ok {
			return n
		}
		n := len(nodes)
		nd := node{parent: n}
		if c, ok := t.(*Comp); ok {
			nd.comps = []*Comp{c}
		}
		nodes = append(nodes, nd)
		index[t] = n
		return n
	}
	find := func(n int) int {
		for nodes[n].parent != n {
			nodes[n].parent = nodes[nodes[n].parent].parent
			n = nodes[n].parent
		}
		return n
	}
	type pair struct{ x, y int }
	work := []pair{{mk(a), mk(b)}}
	for len(work) > 0 {
		m.tick()
		p := work[len(work)-1]
		work = work[:len(work)-1]
		if p.x < 0 || p.y < 0 {
			continue
		}
		rx, ry := find(p.x), find(p.y)
		if rx == ry {
			continue
		}
		for _, cx := range nodes[rx].comps {
			for _, cy := range nodes[ry].comps {
				if cx.f == cy.f && len(cx.args) == len(cy.args) {
					for k := range cx.args {
						work = append(work, pair{mk(cx.args[k]), mk(cy.args[k])})
					}
				}
			}
		}
		nodes[ry].parent = rx
		nodes[rx].comps = append(nodes[rx].comps, nodes[ry].comps...)
	}
	state := map[int]int{}
	var visit func(c int) bool
	visit = func(c int) bool {
		switch state[c] {
		case 1:
			return true
		case 2:
			return false
		}
		m.tick()
		state[c] = 1
		for _, cm := range nodes[c].comps {
			for _, x := range cm.args {
				if n := mk(x); n >= 0 && visit(find(n)) {
					return true
				}
			}
		}
		state[c] = 2
		return false
	}
	for n := 0; n < len(nodes); n++ {
		if visit(find(n)) {
			return true
		}
	}
	return false
}

func (m *base) unify1(a, b Term) bool {
	m.tick()
	a, b = deref(a), deref(b)
	if a == b {
		return true
	}
	if v, ok := a.(*Var); ok {
		m.bind(v, b)
		return true
	}
	if v, ok := b.(*Var); ok {
		m.bind(v, a)
		return true
	}
	switch x := a.(type) {
	case Atom:
		y, ok := b.(Atom)
		return ok && x == y
	case Int:
		y, ok := b.(Int)
		return ok && x == y
	case Flt:
		y, ok := b.(Flt)
		return ok && x == y
	case *Comp:
		y, ok := b.(*Comp)
		if !ok || x.f != y.f || len(x.args) != len(y.args) {
			return false
		}
		for i := range x.args {
			if !m.unify1(x.args[i], y.args[i]) {
				return false
			}
		}
		return true
	}
	return false
}

// copyTerm copies t resolving bindings, renaming variables through ren.
func (m *base) copyTerm(t Term, ren map[*Var]Term) Term {
	m.tick()
	t = deref(t)
	switch x := t.(type) {
	case *Var:
		if c, ok := ren[x]; ok {
			return c
		}
		c := m.newVar()
		c.ctx = x.ctx
		ren[x] = c
		return c
	case *Comp:
		args := make([]Term, len(x.args))
		for i := range args {
			args[i] = m.copyTerm(x.args[i], ren)
		}
		return &Comp{x.f, args}
	}
	return t
}

func varsOf(t Term, acc *[]*Var) {
	t = deref(t)
	switch x := t.(type) {
	case *Var:
		for _, v := range *acc {
			if v == x {
				return
			}
		}
		*acc = append(*acc, x)
	case *Comp:
		for _, a := range x.args {
			varsOf(a, acc)
		}
	}
}

// standard order: Var < Float < Int < Atom < Comp. Every visited pair is charged to the work budget: the
// comparison walks the terms as trees (as the real system does), which is exponential in the size of a term
// with shared subterms.
func (m *base) compare(a, b Term) int {
	m.tick()
	a, b = deref(a), deref(b)
	rank := func(t Term) int {
		switch t.(type) {
		case *Var:
			return 0
		case Flt:
			return 1
		case Int:
			return 2
		case Atom:
			return 3
		}
		return 4
	}
	if ra, rb := rank(a), rank(b); ra != rb {
		if ra < rb {
			return -1
		}
		return 1
	}
	switch x := a.(type) {
	case *Var:
		y := b.(*Var)
		switch {
		case x.id < y.id:
			return -1
		case x.id > y.id:
			return 1
		}
		return 0
	case Int:
		y := b.(Int)
		switch {
		case x < y:
			return -1
		case x > y:
			return 1
		}
		return 0
	case Flt:
		y := b.(Flt)
		switch {
		case x < y:
			return -1
		case x > y:
			return 1
		}
		return 0
	case Atom:
		return strings.Compare(string(x), string(b.(Atom)))
	case *Comp:
		y := b.(*Comp)
		if len(x.args) != len(y.args) {
			if len(x.args) < len(y.args) {
				return -1
			}
			return 1
		}
		if c := strings.Compare(x.f, y.f); c != 0 {
			return c
		}
		for i := range x.args {
			if c := m.compare(x.args[i], y.args[i]); c != 0 {
				return c
			}
		}
	}
	return 0
}

// compareHasVarPair reports whether comparing a and b reaches a pair of distinct variables
// (the outcome is then implementation dependent).
func (m *base) compareHasVarPair(a, b Term) bool {
	a, b = deref(a), deref(b)
	switch x := a.(type) {
	case *Var:
		y, ok := b.(*Var)
		return ok && x != y
	case *Comp:
		y, ok := b.(*Comp)
		if !ok || x.f != y.f || len(x.args) != len(y.args) {
			return false
		}
		for i := range x.args {
			if m.compareHasVarPair(x.args[i], y.args[i]) {
				return true
			}
			if m.compare(x.args[i], y.args[i]) != 0 {
				return false
			}
		}
	}
	return false
}

func variant(a, b Term) bool {
	ab, ba := map[*Var]*Var{}, map[*Var]*Var{}
	var rec func(a, b Term) bool
	rec = func(a, b Term) bool {
		a, b = deref(a), deref(b)
		switch x := a.(type) {
		case *Var:
			y, ok := b.(*Var)
			if !ok {
				return false
			}
			p, ok1 := ab[x]
			q, ok2 := ba[y]
			if ok1 != ok2 {
				return false
			}
			if ok1 {
				return p == y && q == x
			}
			ab[x], ba[y] = y, x
			return true
		case *Comp:
			y, ok := b.(*Comp)
			if !ok || x.f != y.f || len(x.args) != len(y.args) {
				return false
			}
			for i := range x.args {
				if !rec(x.args[i], y.args[i]) {
					return false
				}
			}
			return true
		}
		return a == b
	}
	return rec(a, b)
}

func (m *base) sortTerms(ts []Term) {
	sort.SliceStable(ts, func(i, j int) bool { return m.compare(ts[i], ts[j]) < 0 })
}

// ---- conversion from/to rt.Term -------------------------------------------------------------------

// FromRT converts an rt term; vars maps rt variable ids to machine variables (shared across calls).
func (m *base) FromRT(t *rt.Term, vars map[int64]*Var) Term {
	switch t.K {
	case rt.Var:
		if v, ok := vars[t.I]; ok {
			return v
		}
		v := m.newVar()
		vars[t.I] = v
		return v
	case rt.Atom:
		return Atom(t.S)
	case rt.Int:
		return Int(t.I)
	case rt.Float:
		return Flt(t.F)
	case rt.Comp:
		args := make([]Term, len(t.A))
		for i, a := range t.A {
			args[i] = m.FromRT(a, vars)
		}
		return &Comp{t.S, args}
	}
	return Atom("$opaque")
}

// toRT is ToRT under the machine's work budget (answers can be DAGs of exponential tree size).
func (m *base) toRT(t Term) *rt.Term {
	return toRT(t, m.tick)
}

// ToRT converts a (dereferenced) machine term to rt; variable ids are the machine's.
func ToRT(t Term) *rt.Term { return toRT(t, func() {}) }

func toRT(t Term, tick func()) *rt.Term {
	tick()
	switch x := deref(t).(type) {
	case *Var:
		return rt.V(x.id)
	case Atom:
		return rt.A(string(x))
	case Int:
		return rt.I(int64(x))
	case Flt:
		return rt.F(float64(x))
	case *Comp:
		if x.f == "." && len(x.args) == 2 {
			var es []*rt.Term
			var cur Term = x
			for {
				c, ok := isComp(cur, ".", 2)
				if !ok {
					break
				}
				es = append(es, toRT(c.args[0], tick))
				cur = c.args[1]
			}
			return rt.List(es, toRT(cur, tick))
		}
		args := make([]*rt.Term, len(x.args))
		for i, a := range x.args {
			args[i] = toRT(a, tick)
		}
		return rt.C(x.f, args...)
	}
	return rt.O(fmt.Sprintf("%T", t))
}

// show renders what write/1 prints for the small terms the generators write.
func show(t Term) string {
	r := ToRT(t)
	return writeText(r)
}

func writeText(t *rt.Term) string {
	switch t.K {
	case rt.Var:
		return "_"
	case rt.Atom:
		return t.S
	case rt.Int:
		return fmt.Sprint(t.I)
	case rt.Float:
		return rt.FloatText(t.F)
	case rt.Comp:
		if t.Is(".", 2) {
			es, tail := t.Unlist()
			var ss []string
			for _, e := range es {
				ss = append(ss, writeText(e))
			}
			s := "[" + strings.Join(ss, ",")
			if !tail.IsAtom("[]") {
				s += "|" + writeText(tail)
			}
			return s + "]"
		}
		var ss []string
		for _, a := range t.A {
			ss = append(ss, writeText(a))
		}
		return t.S + "(" + strings.Join(ss, ",") + ")"
	}
	return "?"
}
