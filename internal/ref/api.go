package ref

import (
	"verif/internal/rt"
)

// Result of a reference run.
type Result struct {
	Answers     [][]*rt.Term // canonical tuples
	Exhausted   bool
	Truncated   bool
	Ball        *rt.Term // uncaught ball (nil if none)
	Budget      bool     // inference or work budget exceeded: the case is to be discarded
	BudgetSteps bool     // ... it was the inference budget (the answers found until then are still the first answers)
	STO         bool     // a unification subject to occurs check was performed: discard
	VarOrder    bool     // a setof sort hinged on the order of two distinct variables: discard
	Unsupported string   // the program used something the reference does not model: discard
	Output      string
	Stats       Stats
}

// PrefixComparable: the run ended on its inference budget after at least one answer and nothing else rules
// the case out: for a program without side effects those answers are the first answers of any correct run.
func (r *Result) PrefixComparable() bool {
	return r.Budget && r.BudgetSteps && !r.STO && !r.VarOrder && r.Unsupported == "" && len(r.Answers) > 0
}

// Discard says why the case must not be compared ("" = comparable).
func (r *Result) Discard() string {
	switch {
	case r.Unsupported != "":
		return "unsupported:" + r.Unsupported
	case r.STO:
		return "sto"
	case r.VarOrder:
		return "variable_order_dependent_sort"
	case r.Budget:
		return "budget"
	}
	return ""
}

// Consult adds program clauses (rt terms). Directives `:- dynamic(P/N)` (also comma lists) declare
// procedures; `H --> B` is loaded as a grammar rule interpreted directly.
func (m *Machine) Consult(clauses []*rt.Term) error {
	for _, c := range clauses {
		if err := m.ConsultOne(c, false); err != nil {
			return err
		}
	}
	return nil
}

// ConsultOne adds one clause (static unless declared dynamic beforehand).
func (m *Machine) ConsultOne(c *rt.Term, front bool) (err error) {
	defer func() {
		if r := recover(); r != nil {
			if _, ok := r.(workExceeded); ok {
				err = errBudget
				return
			}
			panic(r)
		}
	}()
	t := m.FromRT(c, map[int64]*Var{})
	if d, ok := isComp(t, ":-", 1); ok {
		if dyn, ok := isComp(d.args[0], "dynamic", 1); ok {
			m.declareAll(dyn.args[0])
			return nil
		}
		if _, ok := isComp(d.args[0], "discontiguous", 1); ok {
			return nil
		}
		m.Unsupported = "directive"
		return nil
	}
	if _, ok := isComp(t, "-->", 2); ok {
		return m.addRule(t, front)
	}
	head := t
	if cc, ok := isComp(t, ":-", 2); ok {
		head = cc.args[0]
	}
	k, _, ok := headKey(head)
	dynamic := false
	if ok {
		if p, exists := m.db[k]; exists {
			dynamic = p.dynamic
		}
	}
	return m.addClause(t, front, dynamic)
}

func (m *Machine) declareAll(t Term) {
	t = deref(t)
	if c, ok := isComp(t, ",", 2); ok {
		m.declareAll(c.args[0])
		m.declareAll(c.args[1])
		return
	}
	if c, ok := isComp(t, ".", 2); ok {
		m.declareAll(c.args[0])
		m.declareAll(c.args[1])
		return
	}
	if pi, ok := isComp(t, "/", 2); ok {
		n, ok1 := deref(pi.args[0]).(Atom)
		a, ok2 := deref(pi.args[1]).(Int)
		if ok1 && ok2 {
			m.Declare(string(n), int(a))
		}
	}
}

// Solve runs the query and collects up to max answers as canonical tuples of the given variables
// (rt variable ids of the query term).
func (m *Machine) Solve(query *rt.Term, vars []int64, max int) (res Result) {
	vm := map[int64]*Var{}
	defer func() {
		if r := recover(); r != nil {
			if _, ok := r.(workExceeded); ok {
				res.Budget = true
				res.Stats = m.Stats
				res.Output = m.out.String()
				res.STO, res.VarOrder, res.Unsupported = m.sto, m.VarOrder, m.Unsupported
				return
			}
			panic(r)
		}
	}()
	q := m.FromRT(query, vm)
	vs := make([]Term, len(vars))
	for i, id := range vars {
		if v, ok := vm[id]; ok {
			vs[i] = v
		} else {
			vs[i] = m.newVar()
		}
	}
	r := &run{m: m, goals: &frame{goal: mk("call", q), B: 0}}
	first := true
	startOut := m.out.Len()
	for {
		if max >= 0 && len(res.Answers) >= max {
			res.Truncated = true
			break
		}
		ok, err := r.next(first)
		first = false
		if err != nil {
			if b, isBall := err.(*ball); isBall {
				res.Ball = m.toRT(b.t)
			} else {
				res.Budget = true
				res.BudgetSteps = true
			}
			break
		}
		if !ok {
			res.Exhausted = true
			break
		}
		tuple := make([]*rt.Term, len(vs))
		for i, v := range vs {
			tuple[i] = m.toRT(v)
		}
		res.Answers = append(res.Answers, rt.Canon(tuple))
	}
	res.STO = m.sto
	res.VarOrder = m.VarOrder
	res.Unsupported = m.Unsupported
	if m.ctxTested && res.Unsupported == "" {
		res.Unsupported = "the context argument of a built-in's error decides a unification"
	}
	res.Output = m.out.String()[startOut:]
	res.Stats = m.Stats
	return res
}

// Listing returns the clauses of name/arity as rt terms (Head :- Body, facts as Head), or nil,false
// if the procedure does not exist.
func (m *Machine) Listing(name string, arity int) ([]*rt.Term, bool) {
	p, ok := m.db[key(name, arity)]
	if !ok {
		return nil, false
	}
	var out []*rt.Term
	for _, c := range p.clauses {
		h, b := ToRT(c.head), ToRT(c.raw)
		out = append(out, rt.Canon([]*rt.Term{rt.C(":-", h, b)})[0])
	}
	return out, true
}

// ResetBudget starts a new step of a history: the inference and work budgets apply per step.
func (m *Machine) ResetBudget() {
	m.Stats.Steps = 0
	m.work = 0
}

// Exists reports whether name/arity is a known procedure.
func (m *Machine) Exists(name string, arity int) bool {
	_, ok := m.db[key(name, arity)]
	return ok
}

// RealBudget is the step budget granted to the real engine for a run the reference finished with these
// statistics: generous multiples of the inferences and of the clauses tried (the engine pays a few steps
// per clause of a predicate whether or not the head matches, so the cost of an inference grows with the
// size of the predicate).
func (s Stats) RealBudget() int64 {
	return int64(200*s.Steps + 60*s.ClauseTries + 20000)
}
