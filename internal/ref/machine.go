package ref

import (
	"fmt"
	"strings"
)

type frame struct {
	goal Term
	B    int
	K    *catchRec
	next *frame
}

type catchRec struct {
	catcher, recovery Term
	after             *frame
	B                 int
	parent            *catchRec
	cpHeight, mark    int
	exited            int // how many times the goal has exited (statistics only)
}

type choice struct {
	mark int
	alts []func() *frame // each returns a dummy head whose next is the goal list to continue with, or nil if the alternative fails at once
	rep  bool            // repeat: never exhausted
	pred bool            // created by a user predicate call (statistics)
}

type clause struct {
	id     int
	head   Term
	body   Term // converted to a goal (ISO 7.6.2): what executes
	raw    Term // the body as given: what clause/2 and retract/1 see
	erased bool
}

type proc struct {
	clauses []*clause
	dynamic bool
}

type ball struct{ t Term }

func (b *ball) Error() string { return "ball: " + ToRT(b.t).String() }

var errBudget = fmt.Errorf("reference budget exceeded")

// Stats are measurements of one run used for the non-triviality rules.
type Stats struct {
	Steps               int
	ClauseTries         int // clauses tried by calls, clause/2, retract/1 (the real engine pays a few steps for each)
	Backtracks          int // backtracks into a user predicate's remaining clauses
	CutsEffective       int // cuts that removed at least one choice point
	CutLocal            int // cut-opaque constructs (call/N, \+, findall, catch, ->) entered
	Throws              int
	ThrowsCaught        int
	ThrowAfterCatchExit int // throws raised while some catch/3 goal had already exited
	CatchExitNondet     int // catch goals that exited leaving choice points
	CatchReentered      int // backtracking into a catch goal after it had exited
	RuleBodies2         int // rule bodies with >= 2 goals entered
	DbUpdatesOpen       int // database updates while a call/retract/clause on the same predicate had untried alternatives
	Groups              int // bagof/setof groups produced (max over calls)
	NongroundWitness    int
	CaretUsed           int
	DcgSteps            int
}

// Machine is the reference interpreter.
type Machine struct {
	base
	db              map[string]*proc
	out             strings.Builder
	maxSteps        int
	clauseID        int
	SkipErased      bool // retract policy for a snapshot clause somebody else already erased: skip it (true) or succeed without removing (false)
	Unsupported     string
	Stats           Stats
	open            map[string]int // predicate key -> number of open enumerations with untried alternatives (approximation: live choice points)
	flagUnknownFail bool
	exitedCatches   int
	VarOrder        bool // a sort hinged on the order of two distinct unbound variables
}

func key(name string, arity int) string { return fmt.Sprintf("%s/%d", name, arity) }

// NewMachine creates a machine with the given budgets (inferences, term-traversal work).
func NewMachine(maxSteps, maxWork int) *Machine {
	m := &Machine{db: map[string]*proc{}, maxSteps: maxSteps, open: map[string]int{}}
	m.maxWork = maxWork
	return m
}

// Output is what write/1 and nl/0 produced.
func (m *Machine) Output() string { return m.out.String() }

// SetUnknownFail makes calls of unknown procedures fail (the flag unknown = fail) instead of raising existence errors.
func (m *Machine) SetUnknownFail(b bool) { m.flagUnknownFail = b }

// STO reports whether a unification subject to occurs check was performed.
func (m *Machine) STO() bool { return m.sto }

func (m *Machine) addClause(t Term, front bool, dynamic bool) error {
	t = m.copyTerm(t, map[*Var]Term{})
	head, body := t, Term(Atom("true"))
	if c, ok := isComp(t, ":-", 2); ok {
		head, body = deref(c.args[0]), deref(c.args[1])
	}
	raw := body
	body = convertBody(body) // ISO 7.6.2: a variable in a body position becomes call(Var) when the clause is added
	name, arity := "", 0
	switch h := deref(head).(type) {
	case Atom:
		name = string(h)
	case *Comp:
		name, arity = h.f, len(h.args)
	case *Var:
		return &ball{mk("error", Atom("instantiation_error"), m.newVar())}
	default:
		return &ball{mk("error", mk("type_error", Atom("callable"), head), m.newVar())}
	}
	k := key(name, arity)
	p, ok := m.db[k]
	if !ok {
		p = &proc{dynamic: dynamic}
		m.db[k] = p
	}
	m.clauseID++
	c := &clause{id: m.clauseID, head: head, body: body, raw: raw}
	if front {
		p.clauses = append([]*clause{c}, p.clauses...)
	} else {
		p.clauses = append(append([]*clause{}, p.clauses...), c)
	}
	return nil
}

// Declare makes name/arity exist as a dynamic procedure with no clauses.
func (m *Machine) Declare(name string, arity int) {
	k := key(name, arity)
	if _, ok := m.db[k]; !ok {
		m.db[k] = &proc{dynamic: true}
	}
}

func (m *Machine) throwErr(f Term) *ball {
	ctx := m.newVar()
	ctx.ctx = true
	return &ball{m.copyTerm(mk("error", f, ctx), map[*Var]Term{})}
}

type run struct {
	m     *Machine
	goals *frame
	cps   []*choice
}

// next finds the next solution. ok=false means exhausted.
func (r *run) next(first bool) (bool, error) {
	m := r.m
	if !first {
		if !r.backtrack() {
			return false, nil
		}
	}
	for {
		if r.goals == nil {
			return true, nil
		}
		m.Stats.Steps++
		if m.Stats.Steps > m.maxSteps {
			return false, errBudget
		}
		f := r.goals
		r.goals = f.next
		ok, err := r.step(f)
		if err != nil {
			b, isBall := err.(*ball)
			if !isBall {
				return false, err
			}
			m.Stats.Throws++
			if !r.handle(f.K, b) {
				return false, b
			}
			m.Stats.ThrowsCaught++
			continue
		}
		if !ok {
			if !r.backtrack() {
				return false, nil
			}
		}
	}
}

func (r *run) handle(K *catchRec, b *ball) bool {
	m := r.m
	bc := m.copyTerm(b.t, map[*Var]Term{})
	for rec := K; rec != nil; rec = rec.parent {
		r.cps = r.cps[:rec.cpHeight]
		m.undo(rec.mark)
		mark := len(m.trail)
		if m.unify(rec.catcher, bc) {
			r.goals = &frame{goal: rec.recovery, B: len(r.cps), K: rec.parent, next: rec.after}
			return true
		}
		m.undo(mark)
	}
	return false
}

func (r *run) backtrack() bool {
	m := r.m
	for len(r.cps) > 0 {
		cp := r.cps[len(r.cps)-1]
		m.undo(cp.mark)
		if len(cp.alts) == 0 {
			r.cps = r.cps[:len(r.cps)-1]
			continue
		}
		alt := cp.alts[0]
		if !cp.rep {
			cp.alts = cp.alts[1:]
			if len(cp.alts) == 0 {
				r.cps = r.cps[:len(r.cps)-1]
			}
		}
		if cp.pred {
			m.Stats.Backtracks++
		}
		if g := alt(); g != nil {
			r.goals = g.next // g is a dummy head
			// statistics: did we re-enter a catch goal that had exited?
			for f := r.goals; f != nil; f = f.next {
				for k := f.K; k != nil; k = k.parent {
					if k.exited > 0 {
						m.Stats.CatchReentered++
						k.exited = 0
					}
				}
				break
			}
			return true
		}
	}
	return false
}

func wrap(f *frame) *frame { return &frame{next: f} }

// sub runs goal to collect solutions; each solution calls on(); stop when on returns false.
func (r *run) sub(goal Term, on func() bool) error {
	s := &run{m: r.m, goals: &frame{goal: goal, B: 0}}
	first := true
	for {
		ok, err := s.next(first)
		first = false
		if err != nil {
			return err
		}
		if !ok {
			return nil
		}
		if !on() {
			return nil
		}
	}
}

func callable(t Term) bool {
	switch deref(t).(type) {
	case Atom, *Comp:
		return true
	}
	return false
}

// checkBody verifies a body term can be converted to a goal (ISO 7.6.2). Variables are fine (call/1).
func checkBody(t Term) bool {
	t = deref(t)
	switch x := t.(type) {
	case *Var:
		return true
	case Atom:
		return true
	case *Comp:
		if len(x.args) == 2 && (x.f == "," || x.f == ";" || x.f == "->") {
			return checkBody(x.args[0]) && checkBody(x.args[1])
		}
		return true
	}
	return false
}

// countGoals: the largest number of goals in one conjunction of the body (looking through ; and ->).
// convertBody converts a term to a goal (ISO 7.6.2): through the control constructs , ; -> a variable
// becomes call(Var); everything else is left as it is. The conversion happens once, when a clause is
// added or when call/N is executed - bindings made later do not turn a call(Var) into a control construct.
func convertBody(t Term) Term {
	t = deref(t)
	switch x := t.(type) {
	case *Var:
		return mk("call", x)
	case *Comp:
		if len(x.args) == 2 && (x.f == "," || x.f == ";" || x.f == "->") {
			return &Comp{x.f, []Term{convertBody(x.args[0]), convertBody(x.args[1])}}
		}
	}
	return t
}

// callBody is convertBody for a goal met at run time (call/N, \+, findall/3, bagof/setof): the real system
// compiles such a goal, which costs it the size of the goal *as a tree* (shared subterms are walked once per
// occurrence), so the same is charged to the work budget here - a program that doubles a term on every
// recursion (k([a, X | X]) :- k(X), \+ X = b) runs out of budget instead of being handed to the real engine.
func (m *Machine) callBody(t Term) Term {
	m.treeWork(t)
	return convertBody(t)
}

func (m *Machine) treeWork(t Term) {
	m.tick()
	if c, ok := deref(t).(*Comp); ok {
		for _, a := range c.args {
			m.treeWork(a)
		}
	}
}

func countGoals(t Term) int {
	if c, ok := isComp(t, ",", 2); ok {
		return countGoals(c.args[0]) + countGoals(c.args[1])
	}
	for _, f := range []string{";", "->"} {
		if c, ok := isComp(t, f, 2); ok {
			a, b := countGoals(c.args[0]), countGoals(c.args[1])
			if a > b {
				return a
			}
			return b
		}
	}
	return 1
}

func (r *run) step(f *frame) (bool, error) {
	m := r.m
	g := deref(f.goal)
	push := func(goal Term, B int, K *catchRec) {
		r.goals = &frame{goal: goal, B: B, K: K, next: r.goals}
	}
	switch x := g.(type) {
	case *Var:
		return false, m.throwErr(Atom("instantiation_error"))
	case Int, Flt:
		return false, m.throwErr(mk("type_error", Atom("callable"), g))
	case Atom:
		switch x {
		case "true":
			return true, nil
		case "fail", "false":
			return false, nil
		case "!":
			if len(r.cps) > f.B {
				m.Stats.CutsEffective++
			}
			if len(r.cps) >= f.B {
				r.cps = r.cps[:f.B]
			}
			return true, nil
		case "repeat":
			rest := r.goals
			r.cps = append(r.cps, &choice{mark: len(m.trail), rep: true, alts: []func() *frame{func() *frame { return wrap(rest) }}})
			return true, nil
		case "nl":
			m.out.WriteString("\n")
			return true, nil
		case "halt":
			m.Unsupported = "halt"
			return false, nil
		}
		return r.callUser(string(x), nil, f)
	case *Comp:
		a := x.args
		switch key(x.f, len(a)) {
		case ",/2":
			push(a[1], f.B, f.K)
			push(a[0], f.B, f.K)
			return true, nil
		case ";/2":
			rest := r.goals
			if ite, ok := isComp(a[0], "->", 2); ok {
				h := len(r.cps)
				els := a[1]
				r.cps = append(r.cps, &choice{mark: len(m.trail), alts: []func() *frame{func() *frame {
					return wrap(&frame{goal: els, B: f.B, K: f.K, next: rest})
				}}})
				push(ite.args[1], f.B, f.K)
				push(mk("$cut", Int(h)), 0, f.K)
				push(ite.args[0], len(r.cps), f.K)
				m.Stats.CutLocal++
				return true, nil
			}
			alt := a[1]
			r.cps = append(r.cps, &choice{mark: len(m.trail), alts: []func() *frame{func() *frame {
				return wrap(&frame{goal: alt, B: f.B, K: f.K, next: rest})
			}}})
			push(a[0], f.B, f.K)
			return true, nil
		case "->/2":
			h := len(r.cps)
			r.cps = append(r.cps, &choice{mark: len(m.trail)}) // barrier choice point with no alternatives
			push(a[1], f.B, f.K)
			push(mk("$cut", Int(h)), 0, f.K)
			push(a[0], len(r.cps), f.K)
			m.Stats.CutLocal++
			return true, nil
		case "$cut/1":
			r.cps = r.cps[:int(deref(a[0]).(Int))]
			return true, nil
		case "$catch_exit/0":
			return true, nil
		case "\\+/1":
			if _, ok := deref(a[0]).(*Var); ok {
				return false, m.throwErr(Atom("instantiation_error"))
			}
			if !callable(a[0]) || !checkBody(a[0]) {
				return false, m.throwErr(mk("type_error", Atom("callable"), a[0]))
			}
			m.Stats.CutLocal++
			mark := len(m.trail)
			found := false
			err := r.sub(m.callBody(a[0]), func() bool { found = true; return false })
			m.undo(mark)
			if err != nil {
				return false, err
			}
			return !found, nil
		case "call/1", "call/2", "call/3", "call/4", "call/5", "call/6", "call/7", "call/8":
			goal := deref(a[0])
			if len(a) > 1 {
				switch c := goal.(type) {
				case *Var:
					return false, m.throwErr(Atom("instantiation_error"))
				case Atom:
					goal = &Comp{string(c), append([]Term{}, a[1:]...)}
				case *Comp:
					goal = &Comp{c.f, append(append([]Term{}, c.args...), a[1:]...)}
				default:
					return false, m.throwErr(mk("type_error", Atom("callable"), goal))
				}
			}
			if _, ok := goal.(*Var); ok {
				return false, m.throwErr(Atom("instantiation_error"))
			}
			if !callable(goal) || !checkBody(goal) {
				return false, m.throwErr(mk("type_error", Atom("callable"), goal))
			}
			m.Stats.CutLocal++
			push(m.callBody(goal), len(r.cps), f.K)
			return true, nil
		case "once/1":
			push(mk("call", mk("->", a[0], Atom("true"))), f.B, f.K)
			return true, nil
		case "catch/3":
			rec := &catchRec{catcher: a[1], recovery: a[2], after: r.goals, B: f.B, parent: f.K, cpHeight: len(r.cps), mark: len(m.trail)}
			// the exit marker runs outside the catch (chain f.K) and only records statistics
			r.goals = &frame{goal: &Comp{"$catch_mark", []Term{&catchHandle{rec}}}, B: f.B, K: f.K, next: r.goals}
			push(mk("call", a[0]), len(r.cps), rec)
			m.Stats.CutLocal++
			return true, nil
		case "$catch_mark/1":
			rec := a[0].(*catchHandle).rec
			rec.exited++
			if len(r.cps) > rec.cpHeight {
				m.Stats.CatchExitNondet++
			}
			m.exitedCatches++
			return true, nil
		case "throw/1":
			if _, ok := deref(a[0]).(*Var); ok {
				return false, m.throwErr(Atom("instantiation_error"))
			}
			if m.exitedCatches > 0 {
				m.Stats.ThrowAfterCatchExit++
			}
			return false, &ball{m.copyTerm(a[0], map[*Var]Term{})}
		case "findall/3":
			if !partialList(a[2]) {
				return false, m.throwErr(mk("type_error", Atom("list"), a[2]))
			}
			if _, ok := deref(a[1]).(*Var); ok {
				return false, m.throwErr(Atom("instantiation_error"))
			}
			if !callable(a[1]) || !checkBody(a[1]) {
				return false, m.throwErr(mk("type_error", Atom("callable"), a[1]))
			}
			m.Stats.CutLocal++
			var res []Term
			mark := len(m.trail)
			err := r.sub(m.callBody(a[1]), func() bool { res = append(res, m.copyTerm(a[0], map[*Var]Term{})); return true })
			m.undo(mark)
			if err != nil {
				return false, err
			}
			return m.unify(a[2], list(res, Nil)), nil
		case "bagof/3", "setof/3":
			return r.bagof(x.f == "setof", a[0], a[1], a[2], f)
		case "phrase/2":
			return r.phrase(a[0], a[1], Nil, f)
		case "phrase/3":
			return r.phrase(a[0], a[1], a[2], f)
		case "$dcg/3":
			return r.dcg(a[0], a[1], a[2], f)
		case "=/2":
			return m.unify(a[0], a[1]), nil
		case "\\=/2":
			mark := len(m.trail)
			ok := m.unify(a[0], a[1])
			m.undo(mark)
			return !ok, nil
		case "==/2":
			if m.compareHasVarPair(a[0], a[1]) {
				return false, nil // distinct variables are never identical
			}
			return m.compare(a[0], a[1]) == 0, nil
		case "\\==/2":
			if m.compareHasVarPair(a[0], a[1]) {
				return true, nil
			}
			return m.compare(a[0], a[1]) != 0, nil
		case "var/1":
			_, ok := deref(a[0]).(*Var)
			return ok, nil
		case "nonvar/1":
			_, ok := deref(a[0]).(*Var)
			return !ok, nil
		case "atom/1":
			_, ok := deref(a[0]).(Atom)
			return ok, nil
		case "integer/1":
			_, ok := deref(a[0]).(Int)
			return ok, nil
		case "atomic/1":
			switch deref(a[0]).(type) {
			case Atom, Int, Flt:
				return true, nil
			}
			return false, nil
		case "compound/1":
			_, ok := deref(a[0]).(*Comp)
			return ok, nil
		case "callable/1":
			return callable(a[0]), nil
		case "is/2":
			v, err := m.eval(a[1])
			if err != nil {
				return false, err
			}
			return m.unify(a[0], v), nil
		case "</2", ">/2", "=</2", ">=/2", "=:=/2", "=\\=/2":
			p, err := m.eval(a[0])
			if err != nil {
				return false, err
			}
			q, err := m.eval(a[1])
			if err != nil {
				return false, err
			}
			switch x.f {
			case "<":
				return p < q, nil
			case ">":
				return p > q, nil
			case "=<":
				return p <= q, nil
			case ">=":
				return p >= q, nil
			case "=\\=":
				return p != q, nil
			}
			return p == q, nil
		case "write/1":
			m.out.WriteString(writeText(m.toRT(a[0])))
			return true, nil
		case "copy_term/2":
			return m.unify(m.copyTerm(a[0], map[*Var]Term{}), a[1]), nil
		case "between/3":
			lo, ok1 := deref(a[0]).(Int)
			hi, ok2 := deref(a[1]).(Int)
			if !ok1 || !ok2 {
				return false, m.throwErr(Atom("instantiation_error"))
			}
			if v, ok := deref(a[2]).(Int); ok {
				return lo <= v && v <= hi, nil
			}
			if hi-lo > 1000 {
				m.Unsupported = "between over a large range"
				return false, nil
			}
			rest := r.goals
			var alts []func() *frame
			for i := lo; i <= hi; i++ {
				i := i
				alts = append(alts, func() *frame {
					if m.unify(a[2], i) {
						return wrap(rest)
					}
					return nil
				})
			}
			r.cps = append(r.cps, &choice{mark: len(m.trail), alts: alts})
			return false, nil
		case "member/2":
			// member(X, L) over a proper or partial list prefix: one alternative per element; an open tail is unsupported
			rest := r.goals
			var alts []func() *frame
			cur := deref(a[1])
			for {
				c, ok := cur.(*Comp)
				if !ok || c.f != "." || len(c.args) != 2 {
					break
				}
				e := c.args[0]
				alts = append(alts, func() *frame {
					if m.unify(a[0], e) {
						return wrap(rest)
					}
					return nil
				})
				cur = deref(c.args[1])
			}
			if _, open := cur.(*Var); open {
				m.Unsupported = "member/2 on a partial list"
				return false, nil
			}
			r.cps = append(r.cps, &choice{mark: len(m.trail), alts: alts})
			return false, nil
		case "assertz/1", "asserta/1":
			if err := m.assertClause(a[0], x.f == "asserta"); err != nil {
				return false, err
			}
			r.noteUpdate(a[0])
			return true, nil
		case "retract/1":
			return r.retract(a[0])
		case "clause/2":
			return r.clause(a[0], a[1])
		case "abolish/1":
			pi, ok := isComp(a[0], "/", 2)
			if !ok {
				return false, m.throwErr(Atom("instantiation_error"))
			}
			n, ok1 := deref(pi.args[0]).(Atom)
			ar, ok2 := deref(pi.args[1]).(Int)
			if !ok1 || !ok2 {
				return false, m.throwErr(Atom("instantiation_error"))
			}
			k := key(string(n), int(ar))
			if m.open[k] > 0 || r.hasOpen(k) {
				m.Stats.DbUpdatesOpen++
			}
			if _, exists := m.db[k]; !exists {
				m.Unsupported = "abolish of a non-existent procedure" // outside the property; implementations differ
				return false, nil
			}
			delete(m.db, k)
			return true, nil
		case "retractall/1":
			h := deref(a[0])
			if _, ok := h.(*Var); ok {
				return false, m.throwErr(Atom("instantiation_error"))
			}
			if !callable(h) {
				return false, m.throwErr(mk("type_error", Atom("callable"), h))
			}
			// (whether retractall/1 creates a missing procedure is outside the properties; like the system
			// under test the reference leaves it missing)
			push(Atom("true"), 0, nil)
			mark := len(m.trail)
			err := r.sub(mk(",", mk("retract", mk(":-", a[0], m.newVar())), Atom("fail")), func() bool { return true })
			m.undo(mark)
			r.goals = r.goals.next
			return err == nil, err
		}
		return r.callUser(x.f, a, f)
	case *catchHandle:
		return true, nil
	}
	return false, nil
}

// catchHandle smuggles a catch record through a goal term (statistics only).
type catchHandle struct{ rec *catchRec }

func (m *Machine) eval(t Term) (Int, error) {
	m.tick()
	switch x := deref(t).(type) {
	case Int:
		return x, nil
	case Flt:
		m.Unsupported = "float arithmetic"
		return 0, nil
	case *Var:
		return 0, m.throwErr(Atom("instantiation_error"))
	case Atom:
		return 0, m.throwErr(mk("type_error", Atom("evaluable"), mk("/", x, Int(0))))
	case *Comp:
		if len(x.args) == 2 && (x.f == "+" || x.f == "-" || x.f == "*") {
			p, err := m.eval(x.args[0])
			if err != nil {
				return 0, err
			}
			q, err := m.eval(x.args[1])
			if err != nil {
				return 0, err
			}
			var r Int
			switch x.f {
			case "+":
				r = p + q
			case "-":
				r = p - q
			default:
				r = p * q
			}
			if r > 1<<40 || r < -(1<<40) {
				m.Unsupported = "large integer arithmetic"
			}
			return r, nil
		}
		return 0, m.throwErr(mk("type_error", Atom("evaluable"), mk("/", Atom(x.f), Int(len(x.args)))))
	}
	return 0, nil
}

func (m *Machine) assertClause(t Term, front bool) error {
	t = deref(t)
	if _, ok := t.(*Var); ok {
		return m.throwErr(Atom("instantiation_error"))
	}
	head, body := t, Term(Atom("true"))
	if c, ok := isComp(t, ":-", 2); ok {
		head, body = deref(c.args[0]), deref(c.args[1])
	}
	if _, ok := head.(*Var); ok {
		return m.throwErr(Atom("instantiation_error"))
	}
	if !callable(head) {
		return m.throwErr(mk("type_error", Atom("callable"), head))
	}
	if !checkBody(body) {
		return m.throwErr(mk("type_error", Atom("callable"), body))
	}
	return m.addClause(t, front, true)
}

func headKey(h Term) (string, []Term, bool) {
	switch x := deref(h).(type) {
	case Atom:
		return key(string(x), 0), nil, true
	case *Comp:
		return key(x.f, len(x.args)), x.args, true
	}
	return "", nil, false
}

// hasOpen: is there a live choice point enumerating predicate k in this run?
func (r *run) hasOpen(k string) bool { return r.m.open[k] > 0 }

func (r *run) noteUpdate(clauseTerm Term) {
	t := deref(clauseTerm)
	head := t
	if c, ok := isComp(t, ":-", 2); ok {
		head = c.args[0]
	}
	if k, _, ok := headKey(head); ok && r.m.open[k] > 0 {
		r.m.Stats.DbUpdatesOpen++
	}
}

func (r *run) callUser(name string, args []Term, f *frame) (bool, error) {
	m := r.m
	if name == "." || name == "[]" || name == "{}" {
		m.Unsupported = "list or curly term as a goal"
		return false, nil
	}
	k := key(name, len(args))
	p, ok := m.db[k]
	if !ok {
		if m.flagUnknownFail {
			return false, nil
		}
		return false, m.throwErr(mk("existence_error", Atom("procedure"), mk("/", Atom(name), Int(len(args)))))
	}
	snapshot := p.clauses // addClause/erase copy on write, so this slice is a stable snapshot
	rest := r.goals
	B := len(r.cps)
	var try func(i int) *frame
	try = func(i int) *frame {
		for ; i < len(snapshot); i++ {
			c := snapshot[i]
			m.Stats.ClauseTries++
			mark := len(m.trail)
			ren := map[*Var]Term{}
			h := m.copyTerm(c.head, ren)
			b := m.copyTerm(c.body, ren)
			okU := true
			if hc, ok := h.(*Comp); ok {
				for j := range hc.args {
					if !m.unify(hc.args[j], args[j]) {
						okU = false
						break
					}
				}
			}
			if !okU {
				m.undo(mark)
				continue
			}
			if i+1 < len(snapshot) {
				j := i + 1
				m.open[k]++
				cp := &choice{mark: mark, pred: true}
				cp.alts = []func() *frame{func() *frame { m.open[k]--; return try(j) }}
				r.cps = append(r.cps, cp)
			}
			if countGoals(b) >= 2 {
				m.Stats.RuleBodies2++
			}
			return wrap(&frame{goal: b, B: B, K: f.K, next: rest})
		}
		return nil
	}
	g := try(0)
	if g == nil {
		return false, nil
	}
	r.goals = g.next
	return true, nil
}

func (r *run) clause(head, body Term) (bool, error) {
	m := r.m
	if _, isVar := deref(head).(*Var); isVar {
		return false, m.throwErr(Atom("instantiation_error"))
	}
	k, _, ok := headKey(head)
	if !ok {
		return false, m.throwErr(mk("type_error", Atom("callable"), head))
	}
	if _, isVar := deref(body).(*Var); !isVar && !callable(body) {
		return false, m.throwErr(mk("type_error", Atom("callable"), body))
	}
	p, ok := m.db[k]
	if !ok {
		return false, nil
	}
	snapshot := p.clauses
	rest := r.goals
	var alts []func() *frame
	for _, c := range snapshot {
		c := c
		alts = append(alts, func() *frame {
			m.Stats.ClauseTries++
			ren := map[*Var]Term{}
			if m.unify(head, m.copyTerm(c.head, ren)) && m.unify(body, m.copyTerm(c.raw, ren)) {
				return wrap(rest)
			}
			return nil
		})
	}
	r.cps = append(r.cps, &choice{mark: len(m.trail), alts: alts})
	return false, nil
}

func (r *run) retract(t Term) (bool, error) {
	m := r.m
	t = deref(t)
	if _, ok := t.(*Var); ok {
		return false, m.throwErr(Atom("instantiation_error"))
	}
	head, body := t, Term(Atom("true"))
	if c, ok := isComp(t, ":-", 2); ok {
		head, body = c.args[0], c.args[1]
	}
	if _, ok := deref(head).(*Var); ok {
		return false, m.throwErr(Atom("instantiation_error"))
	}
	k, _, ok := headKey(head)
	if !ok {
		return false, m.throwErr(mk("type_error", Atom("callable"), head))
	}
	p, ok := m.db[k]
	if !ok {
		return false, nil
	}
	snapshot := p.clauses
	rest := r.goals
	var alts []func() *frame
	remaining := len(snapshot)
	m.open[k]++
	closed := false
	for _, c := range snapshot {
		c := c
		alts = append(alts, func() *frame {
			m.Stats.ClauseTries++
			remaining--
			if remaining == 0 && !closed {
				closed = true
				m.open[k]--
			}
			if c.erased && m.SkipErased {
				return nil
			}
			ren := map[*Var]Term{}
			if m.unify(head, m.copyTerm(c.head, ren)) && m.unify(body, m.copyTerm(c.raw, ren)) {
				if !c.erased {
					c.erased = true
					if m.open[k] > 0 {
						m.Stats.DbUpdatesOpen++
					}
					if pp, ok := m.db[k]; ok {
						for i, d := range pp.clauses {
							if d == c {
								pp.clauses = append(append([]*clause{}, pp.clauses[:i]...), pp.clauses[i+1:]...)
								break
							}
						}
					}
				}
				return wrap(rest)
			}
			return nil
		})
	}
	if len(alts) == 0 {
		m.open[k]--
		return false, nil
	}
	r.cps = append(r.cps, &choice{mark: len(m.trail), alts: alts})
	return false, nil
}

func partialList(t Term) bool {
	for {
		t = deref(t)
		switch x := t.(type) {
		case *Var:
			return true
		case Atom:
			return x == Nil
		case *Comp:
			if x.f != "." || len(x.args) != 2 {
				return false
			}
			t = x.args[1]
		default:
			return false
		}
	}
}

func (r *run) bagof(set bool, tmpl, goal, inst Term, f *frame) (bool, error) {
	m := r.m
	if !partialList(inst) {
		return false, m.throwErr(mk("type_error", Atom("list"), inst))
	}
	// strip ^
	var exVars []*Var
	g := deref(goal)
	for {
		c, ok := isComp(g, "^", 2)
		if !ok {
			break
		}
		m.Stats.CaretUsed++
		varsOf(c.args[0], &exVars)
		g = deref(c.args[1])
	}
	if _, ok := g.(*Var); ok {
		return false, m.throwErr(Atom("instantiation_error"))
	}
	if !callable(g) || !checkBody(g) {
		return false, m.throwErr(mk("type_error", Atom("callable"), g))
	}
	m.Stats.CutLocal++
	var tv, gv []*Var
	varsOf(tmpl, &tv)
	tv = append(tv, exVars...)
	varsOf(g, &gv)
	var free []Term
	for _, v := range gv {
		bound := false
		for _, w := range tv {
			if v == w {
				bound = true
			}
		}
		if !bound {
			free = append(free, v)
		}
	}
	witness := mk("$w", append([]Term{Atom("w")}, free...)...)
	var sols []Term
	mark := len(m.trail)
	err := r.sub(m.callBody(g), func() bool {
		sols = append(sols, m.copyTerm(mk("+", witness, tmpl), map[*Var]Term{}))
		return true
	})
	m.undo(mark)
	if err != nil {
		return false, err
	}
	if len(sols) == 0 {
		return false, nil
	}
	type group struct {
		w  Term
		ts []Term
		ws []Term
	}
	var groups []*group
	for len(sols) > 0 {
		first := sols[0].(*Comp)
		gr := &group{w: first.args[0]}
		var restS []Term
		for _, s := range sols {
			c := s.(*Comp)
			if variant(c.args[0], gr.w) {
				gr.ts = append(gr.ts, c.args[1])
				gr.ws = append(gr.ws, c.args[0])
			} else {
				restS = append(restS, s)
			}
		}
		sols = restS
		groups = append(groups, gr)
		var wv []*Var
		varsOf(gr.w, &wv)
		if len(wv) > 0 {
			m.Stats.NongroundWitness++
		}
	}
	if len(groups) > m.Stats.Groups {
		m.Stats.Groups = len(groups)
	}
	rest := r.goals
	var alts []func() *frame
	for _, gr := range groups {
		gr := gr
		alts = append(alts, func() *frame {
			for _, w := range gr.ws {
				if !m.unify(witness, w) {
					return nil
				}
			}
			ts := append([]Term{}, gr.ts...)
			if set {
				for i := range ts {
					for j := i + 1; j < len(ts); j++ {
						if m.compareHasVarPair(ts[i], ts[j]) {
							m.VarOrder = true // the order of two distinct variables decides: implementation dependent
						}
					}
				}
				m.sortTerms(ts)
				var ded []Term
				for _, t := range ts {
					if len(ded) == 0 || m.compare(ded[len(ded)-1], t) != 0 {
						ded = append(ded, t)
					}
				}
				ts = ded
			}
			if m.unify(inst, list(ts, Nil)) {
				return wrap(rest)
			}
			return nil
		})
	}
	r.cps = append(r.cps, &choice{mark: len(m.trail), alts: alts})
	return false, nil
}
