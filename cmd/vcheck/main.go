// vcheck is the driver behind ./check: it rebuilds the property's test binary against /repo's
// current working tree (replace => /repo, -tags verif), runs it in shards, merges the shards'
// results into evidence/<ID>.json and prints the verdict.
//
//	exit 0  the property held on everything explored (KNOWN-FINDING lines may be printed)
//	exit 1  VIOLATION property=<ID> replay=<path>
//	exit 2  infrastructure / inconclusive (build failure, lost shard, watchdog) — never a verdict
package main

import (
	"encoding/binary"
	"encoding/json"
	"fmt"
	"os"
	"os/exec"
	"path/filepath"
	"runtime"
	"sort"
	"strconv"
	"strings"
	"sync"
	"syscall"
	"time"

	"verif/internal/h"
)

type propCfg struct {
	fuzz          []string // native fuzz targets run in the thorough tier
	race          bool
	shards        int           // 0 = default
	quickWatch    time.Duration // watchdog per shard
	thoroughWatch time.Duration
	memLimitMiB   int
}

var cfgs = map[string]propCfg{
	"C14": {race: true, shards: 4},
	"C05": {memLimitMiB: 3072, fuzz: []string{"FuzzExec"}},
	"C06": {fuzz: []string{"FuzzRoundTrip"}},
}

func die(code int, format string, a ...any) {
	fmt.Fprintf(os.Stderr, "vcheck: "+format+"\n", a...)
	os.Exit(code)
}

func main() {
	if len(os.Args) < 3 {
		die(2, "usage: check <ID> <quick|thorough> | check replay <ID> <file>")
	}
	root, _ := os.Getwd()
	if os.Args[1] == "replay" {
		if len(os.Args) < 4 {
			die(2, "usage: check replay <ID> <file>")
		}
		os.Exit(replay(root, os.Args[2], os.Args[3]))
	}
	id, tier := os.Args[1], os.Args[2]
	if tier != "quick" && tier != "thorough" {
		die(2, "tier must be quick or thorough")
	}
	os.Exit(run(root, id, tier))
}

func goEnv() []string {
	env := os.Environ()
	env = append(env, "GOFLAGS=-mod=mod", "GOPROXY=off", "GOSUMDB=off", "GOTOOLCHAIN=local")
	return env
}

func build(root, id, scratch string) (string, error) {
	pkg := "./props/" + strings.ToLower(id)
	if _, err := os.Stat(filepath.Join(root, pkg)); err != nil {
		return "", fmt.Errorf("no check package %s", pkg)
	}
	bin := filepath.Join(scratch, "props.test")
	args := []string{"test", "-c", "-tags", "verif", "-vet=off", "-o", bin}
	if repo := os.Getenv("VERIF_REPO"); repo != "" && repo != "/repo" {
		// sensitivity runs against a scratch copy of the repository (never used by the registered commands)
		gm, err := os.ReadFile(filepath.Join(root, "go.mod"))
		if err != nil {
			return "", err
		}
		mf := filepath.Join(scratch, "go.mod")
		_ = os.WriteFile(mf, []byte(strings.ReplaceAll(string(gm), "=> /repo", "=> "+repo)), 0o644)
		if gs, err := os.ReadFile(filepath.Join(root, "go.sum")); err == nil {
			_ = os.WriteFile(filepath.Join(scratch, "go.sum"), gs, 0o644)
		}
		args = append(args, "-modfile="+mf)
	}
	if cfgs[id].race {
		args = append(args, "-race")
	}
	args = append(args, pkg)
	cmd := exec.Command("go", args...)
	cmd.Dir = root
	cmd.Env = goEnv()
	out, err := cmd.CombinedOutput()
	if err != nil {
		return "", fmt.Errorf("build of %s against /repo failed:\n%s", pkg, out)
	}
	return bin, nil
}

func replay(root, id, file string) int {
	scratch, err := os.MkdirTemp("", "vcheck-"+id+"-")
	if err != nil {
		die(2, "%v", err)
	}
	defer os.RemoveAll(scratch)
	bin, err := build(root, id, scratch)
	if err != nil {
		fmt.Fprintln(os.Stderr, err)
		return 2
	}
	abs, _ := filepath.Abs(file)
	cmd := exec.Command(bin, "-test.run", "^TestReplay$", "-test.timeout", "10m", "-test.v")
	cmd.Dir = filepath.Join(root, "props", strings.ToLower(id))
	cmd.Env = append(goEnv(), "VERIF_REPLAY="+abs, "VERIF_ROOT="+root)
	out, err := cmd.CombinedOutput()
	s := string(out)
	switch {
	case strings.Contains(s, "REPLAY-OK"):
		fmt.Printf("replay: property=%s held on %s\n", id, file)
		return 0
	case strings.Contains(s, "REPLAY-VIOLATION"):
		for _, l := range strings.Split(s, "\n") {
			if strings.Contains(l, "REPLAY-VIOLATION") {
				fmt.Println(l)
			}
		}
		fmt.Printf("VIOLATION property=%s replay=%s\n", id, abs)
		return 1
	default:
		fmt.Fprintf(os.Stderr, "replay inconclusive (%v):\n%s\n", err, tail(s, 40))
		return 2
	}
}

func tail(s string, n int) string {
	lines := strings.Split(strings.TrimRight(s, "\n"), "\n")
	if len(lines) > n {
		lines = lines[len(lines)-n:]
	}
	return strings.Join(lines, "\n")
}

type shardOut struct {
	idx    int
	res    *h.Result
	hashes []uint64
	err    error
	exit   int
	log    string
	timed  bool
}

func run(root, id, tier string) int {
	start := time.Now()
	seed := uint64(1)
	if v := os.Getenv("VERIF_SEED"); v != "" {
		if s, err := strconv.ParseUint(v, 10, 64); err == nil {
			seed = s
		} else if s, err := strconv.ParseInt(v, 10, 64); err == nil {
			seed = uint64(s)
		}
	}
	scratch, err := os.MkdirTemp("", "vcheck-"+id+"-")
	if err != nil {
		die(2, "%v", err)
	}
	if os.Getenv("VERIF_KEEP") == "" {
		defer os.RemoveAll(scratch)
	} else {
		fmt.Fprintln(os.Stderr, "vcheck: scratch kept at", scratch)
	}
	bin, err := build(root, id, scratch)
	if err != nil {
		fmt.Fprintln(os.Stderr, err)
		return 2
	}
	pkgDir := filepath.Join(root, "props", strings.ToLower(id))
	cfg := cfgs[id]
	_ = os.RemoveAll(filepath.Join(root, "replay", id)) // replay files of earlier runs are stale

	// known findings: which listed ones still reproduce
	knownOut := filepath.Join(scratch, "known.json")
	kc := exec.Command(bin, "-test.run", "^TestKnown$", "-test.timeout", "10m")
	kc.Dir = pkgDir
	kc.Env = append(goEnv(), "VERIF_OUT="+knownOut, "VERIF_ROOT="+root, "VERIF_TIER="+tier)
	_, _ = kc.CombinedOutput()
	knownRes := map[string]string{}
	if b, err := os.ReadFile(knownOut); err == nil {
		_ = json.Unmarshal(b, &knownRes)
	}

	n := cfg.shards
	if n == 0 {
		n = runtime.NumCPU()
		if n > 16 {
			n = 16
		}
	}
	if v, err := strconv.Atoi(os.Getenv("VERIF_SHARDS")); err == nil && v > 0 {
		n = v
	}
	watch := 20 * time.Minute
	if tier == "thorough" {
		watch = 90 * time.Minute
	}
	if v, err := time.ParseDuration(os.Getenv("VERIF_WATCHDOG")); err == nil {
		watch = v
	}
	mem := cfg.memLimitMiB
	if mem == 0 {
		mem = 4096
	}

	if os.Getenv("VERIF_ONLY_FUZZ") != "" { // sensitivity runs of the native fuzz phase alone
		n = 0
	}
	outs := make([]shardOut, n)
	var wg sync.WaitGroup
	for i := 0; i < n; i++ {
		wg.Add(1)
		go func(i int) {
			defer wg.Done()
			o := &outs[i]
			o.idx = i
			out := filepath.Join(scratch, fmt.Sprintf("shard-%d.json", i))
			logf := filepath.Join(scratch, fmt.Sprintf("shard-%d.log", i))
			lf, _ := os.Create(logf)
			cmd := exec.Command(bin, "-test.run", "^TestProp$", "-test.timeout", "0")
			if !cfg.race {
				// address-space limit: a runaway case must not take the machine down
				cmd = exec.Command("/bin/sh", "-c", fmt.Sprintf("ulimit -v %d; exec \"$0\" \"$@\"", (mem+2048)*1024*2), bin, "-test.run", "^TestProp$", "-test.timeout", "0")
			}
			cmd.Dir = pkgDir
			cmd.Stdout, cmd.Stderr = lf, lf
			cmd.Env = append(goEnv(),
				"VERIF_OUT="+out, "VERIF_ROOT="+root, "VERIF_TIER="+tier,
				"VERIF_SEED="+strconv.FormatUint(seed, 10),
				"VERIF_SHARD="+strconv.Itoa(i), "VERIF_NSHARDS="+strconv.Itoa(n),
				"VERIF_SCRATCH="+scratch,
				"GOMEMLIMIT="+strconv.Itoa(mem)+"MiB", "GOMAXPROCS=2",
			)
			if cfg.race {
				cmd.Env = append(cmd.Env, "GOMAXPROCS=16", "GORACE=halt_on_error=1 exitcode=66")
			}
			cmd.SysProcAttr = &syscall.SysProcAttr{Setpgid: true}
			if err := cmd.Start(); err != nil {
				o.err = err
				return
			}
			done := make(chan error, 1)
			go func() { done <- cmd.Wait() }()
			select {
			case err := <-done:
				if err != nil {
					o.exit = 1
					if ee, ok := err.(*exec.ExitError); ok {
						o.exit = ee.ExitCode()
					}
				}
			case <-time.After(watch):
				_ = syscall.Kill(-cmd.Process.Pid, syscall.SIGKILL)
				<-done
				o.timed = true
			}
			lf.Close()
			if b, err := os.ReadFile(logf); err == nil {
				o.log = string(b)
			}
			if b, err := os.ReadFile(out); err == nil {
				var r h.Result
				if json.Unmarshal(b, &r) == nil {
					o.res = &r
				}
			}
			if b, err := os.ReadFile(out + ".hashes"); err == nil {
				for j := 0; j+8 <= len(b); j += 8 {
					o.hashes = append(o.hashes, binary.LittleEndian.Uint64(b[j:]))
				}
			}
		}(i)
	}
	wg.Wait()

	// merge
	var (
		evals, discardsTotal int64
		classes              = map[string]int64{}
		discards             = map[string]int64{}
		known                = map[string]int64{}
		exhaustive           = map[string]bool{}
		union                = map[uint64]struct{}{}
		samples              []json.RawMessage
		notes                []string
		failures             []h.Failure
		rule                 string
		assumptions          []string
		infra                []string
	)
	for i := range outs {
		o := &outs[i]
		if cfg.race && strings.Contains(o.log, "WARNING: DATA RACE") {
			// the race detector stopped the shard (halt_on_error): that is a verdict, the report is the evidence
			rep := o.log[strings.Index(o.log, "WARNING: DATA RACE"):]
			if len(rep) > 6000 {
				rep = rep[:6000]
			}
			cj, _ := json.Marshal(map[string]any{"kind": "race_report", "report": rep, "shard": i, "seed": seed})
			failures = append(failures, h.Failure{Property: id, Check: "race", Message: "the Go race detector reported a data race: " + oneLine(rep, 400), Case: cj, Seed: seed, Shard: i})
			if o.res != nil {
				failures = append(failures, o.res.Failures...)
			}
			continue
		}
		if o.res == nil {
			infra = append(infra, fmt.Sprintf("shard %d produced no result (exit %d, timed out %v, err %v):\n%s", i, o.exit, o.timed, o.err, crashSummary(o.log)))
			_ = os.MkdirAll(filepath.Join(root, "replay", id), 0o755)
			_ = os.WriteFile(filepath.Join(root, "replay", id, fmt.Sprintf("lost-shard-%d.log", i)), []byte(clip(o.log, 400000)), 0o644)
			continue
		}
		r := o.res
		evals += r.Evaluations
		for k, v := range r.Classes {
			classes[k] += v
		}
		for k, v := range r.Discards {
			discards[k] += v
			discardsTotal += v
		}
		for k, v := range r.Known {
			known[k] += v
		}
		for k, v := range r.Exhaustive {
			if v {
				exhaustive[k] = true
			}
		}
		for _, hsh := range o.hashes {
			union[hsh] = struct{}{}
		}
		if len(samples) < 12 {
			for _, s := range r.Samples {
				if len(samples) < 12 {
					samples = append(samples, s)
				}
			}
		}
		for _, nt := range r.Notes {
			dup := false
			for _, x := range notes {
				if x == nt {
					dup = true
				}
			}
			if !dup {
				notes = append(notes, nt)
			}
		}
		if r.Rule != "" {
			rule = r.Rule
		}
		if len(r.Assumptions) > 0 {
			assumptions = r.Assumptions
		}
		failures = append(failures, r.Failures...)
		if len(r.Failures) == 0 && (o.exit != 0 || o.timed || !r.Completed) {
			infra = append(infra, fmt.Sprintf("shard %d ended abnormally without a recorded violation (exit %d, timed out %v):\n%s", i, o.exit, o.timed, tail(o.log, 25)))
		}
	}
	// a lost shard is only excused if it was not there to begin with: exhaustive claims need all shards
	if len(infra) > 0 {
		for k := range exhaustive {
			exhaustive[k] = false
		}
	}

	// native coverage-guided fuzzing (thorough tier only): a wall-clock budget whose expiry means "nothing found"
	fuzzExecs := map[string]string{}
	if tier == "thorough" && len(cfg.fuzz) > 0 && len(infra) == 0 {
		ft := "150s"
		if v := os.Getenv("VERIF_FUZZTIME"); v != "" {
			ft = v
		}
		for _, target := range cfg.fuzz {
			fs, summary := nativeFuzz(root, id, target, ft, scratch)
			failures = append(failures, fs...)
			fuzzExecs[target] = summary
		}
	}

	// verdict inputs
	sort.Slice(failures, func(i, j int) bool {
		if len(failures[i].Case) != len(failures[j].Case) {
			return len(failures[i].Case) < len(failures[j].Case)
		}
		return string(failures[i].Case) < string(failures[j].Case)
	})
	var replayPaths []string
	seen := map[string]bool{}
	for _, f := range failures {
		key := f.Check + "\x00" + string(f.Case)
		if seen[key] {
			continue
		}
		seen[key] = true
		dir := filepath.Join(root, "replay", id)
		_ = os.MkdirAll(dir, 0o755)
		name := fmt.Sprintf("%s-%016x.json", sanitize(f.Check), h.Hash(f.Check, []byte(f.Case)))
		p := filepath.Join(dir, name)
		b, _ := json.MarshalIndent(h.Saved{Property: id, Check: f.Check, Message: f.Message, Case: f.Case}, "", " ")
		_ = os.WriteFile(p, b, 0o644)
		replayPaths = append(replayPaths, p)
		if len(replayPaths) >= 5 {
			break
		}
	}

	// evidence
	allEx := len(exhaustive) > 0
	exNames := []string{}
	for k, v := range exhaustive {
		if v {
			exNames = append(exNames, k)
		} else {
			allEx = false
		}
	}
	sort.Strings(exNames)
	var knownStill []string
	for _, k := range h.LoadKnown(root) {
		if k.Property == id && k.Kind == "known" {
			if msg, ok := knownRes[k.ID]; ok && msg != "" {
				knownStill = append(knownStill, k.ID)
			}
		}
	}
	cov := map[string]any{
		"evaluations":                      evals,
		"distinct_nontrivial":              len(union),
		"rule":                             rule,
		"samples":                          samples,
		"classes":                          classes,
		"discarded":                        discards,
		"discarded_total":                  discardsTotal,
		"known_finding_cases":              known,
		"known_findings_still_reproducing": knownStill,
		"shards":                           n,
		"exhaustive_subspaces":             exNames,
		"notes":                            notes,
	}
	if allEx && len(exNames) > 0 && tierIsAllExhaustive(classes) {
		cov["exhaustive"] = true
	}
	if len(samples) == 0 {
		cov["samples"] = []any{"(no non-trivial case was recorded in this run)"}
	}
	if assumptions == nil {
		assumptions = []string{}
	}
	if notes == nil {
		notes = []string{}
		cov["notes"] = notes
	}
	ev := map[string]any{
		"property_id": id,
		"tier":        tier,
		"seed":        seed,
		"level":       "exploration",
		"coverage":    cov,
		"assumptions": assumptions,
		"wall_s":      time.Since(start).Seconds(),
		"violations":  len(replayPaths),
	}
	if len(infra) > 0 {
		ev["inconclusive"] = infra
	}
	_ = os.MkdirAll(filepath.Join(root, "evidence"), 0o755)
	eb, _ := json.MarshalIndent(ev, "", " ")
	_ = os.WriteFile(filepath.Join(root, "evidence", id+".json"), append(eb, '\n'), 0o644)

	// verdict
	for _, k := range h.LoadKnown(root) {
		if k.Property == id && k.Kind == "known" {
			if msg, ok := knownRes[k.ID]; ok && msg != "" {
				fmt.Printf("KNOWN-FINDING: property=%s %s: %s (cases met in this run: %d)\n", id, k.ID, k.What, known[k.ID])
			} else if ok {
				fmt.Printf("note: known finding %s of %s no longer reproduces\n", k.ID, id)
			}
		}
	}
	if len(replayPaths) > 0 {
		for i, p := range replayPaths {
			if i == 0 {
				fmt.Printf("first failure: %s\n", oneLine(failures[0].Message, 600))
			}
			fmt.Printf("VIOLATION property=%s replay=%s\n", id, p)
		}
		return 1
	}
	if len(infra) > 0 {
		fmt.Fprintf(os.Stderr, "vcheck: %s %s inconclusive:\n%s\n", id, tier, strings.Join(infra, "\n"))
		return 2
	}
	fmt.Printf("OK property=%s tier=%s seed=%d evaluations=%d distinct_nontrivial=%d discarded=%d wall=%.1fs\n", id, tier, seed, evals, len(union), discardsTotal, time.Since(start).Seconds())
	return 0
}

func tierIsAllExhaustive(classes map[string]int64) bool {
	// a run claims coverage.exhaustive only if it had no sampled (rapid) component
	for k := range classes {
		if strings.HasPrefix(k, "sampled") {
			return false
		}
	}
	return true
}

func sanitize(s string) string {
	var b strings.Builder
	for _, r := range s {
		if r >= 'a' && r <= 'z' || r >= 'A' && r <= 'Z' || r >= '0' && r <= '9' || r == '-' || r == '_' {
			b.WriteRune(r)
		} else {
			b.WriteByte('_')
		}
	}
	return b.String()
}

func oneLine(s string, n int) string {
	s = strings.ReplaceAll(s, "\n", " | ")
	if len(s) > n {
		s = s[:n] + "…"
	}
	return s
}

// nativeFuzz runs one `go test -fuzz` campaign in a scratch copy of the property's package directory
// (so crashers and the corpus are not written into /verif) and converts what it finds into failures.
func nativeFuzz(root, id, target, fuzztime, scratch string) ([]h.Failure, string) {
	pkg := "./props/" + strings.ToLower(id)
	failDir := filepath.Join(scratch, "fuzzfail-"+target)
	_ = os.MkdirAll(failDir, 0o755)
	// (the generated corpus lives in Go's own fuzz cache, $GOCACHE/fuzz)
	args := []string{"test", "-tags", "verif", "-vet=off", "-run", "^$", "-fuzz", "^" + target + "$", "-fuzztime", fuzztime, pkg}
	if repo := os.Getenv("VERIF_REPO"); repo != "" && repo != "/repo" {
		args = append(args[:3], append([]string{"-modfile=" + filepath.Join(scratch, "go.mod")}, args[3:]...)...)
	}
	cmd := exec.Command("go", args...)
	cmd.Dir = root
	cmd.Env = append(goEnv(), "VERIF_FUZZFAIL="+failDir, "VERIF_ROOT="+root)
	out, err := cmd.CombinedOutput()
	summary := lastFuzzLine(string(out))
	var fs []h.Failure
	files, _ := filepath.Glob(filepath.Join(failDir, "*.json"))
	for _, f := range files {
		b, _ := os.ReadFile(f)
		var sv h.Saved
		if json.Unmarshal(b, &sv) == nil {
			fs = append(fs, h.Failure{Property: id, Check: sv.Check, Message: "native fuzz " + target + ": " + sv.Message, Case: sv.Case})
		}
	}
	// crashers of the worker process itself (no chance to write a fail file): Go saves them under testdata/fuzz
	crashDir := filepath.Join(root, "props", strings.ToLower(id), "testdata", "fuzz", target)
	crashers, _ := filepath.Glob(filepath.Join(crashDir, "*"))
	for _, c := range crashers {
		b, _ := os.ReadFile(c)
		if data, ok := parseFuzzBytes(string(b)); ok && len(fs) == 0 {
			cj, _ := json.Marshal(map[string]any{"kind": "text", "text": data})
			fs = append(fs, h.Failure{Property: id, Check: strings.ToLower(id), Message: "native fuzz " + target + ": the fuzz worker crashed or failed on this input: " + oneLine(tail(string(out), 6), 300), Case: cj})
		}
		_ = os.Remove(c) // the replay file written by the driver is the reproducible unit
	}
	if err != nil && len(fs) == 0 {
		// neither a fail file nor a crasher: the campaign itself did not run properly (never a verdict)
		summary += " (inconclusive: fuzz run ended with " + err.Error() + ": " + oneLine(tail(string(out), 4), 300) + ")"
	}
	return fs, summary
}

func lastFuzzLine(out string) string {
	last := ""
	for _, l := range strings.Split(out, "\n") {
		if strings.HasPrefix(l, "fuzz: elapsed") {
			last = l
		}
	}
	return last
}

// parseFuzzBytes extracts the []byte literal of a Go fuzz corpus file (v1 encoding).
func parseFuzzBytes(s string) ([]byte, bool) {
	lines := strings.Split(s, "\n")
	if len(lines) < 2 || !strings.HasPrefix(lines[0], "go test fuzz v1") {
		return nil, false
	}
	l := strings.TrimSpace(lines[1])
	if !strings.HasPrefix(l, "[]byte(") || !strings.HasSuffix(l, ")") {
		return nil, false
	}
	q := l[len("[]byte(") : len(l)-1]
	u, err := strconv.Unquote(q)
	if err != nil {
		return nil, false
	}
	return []byte(u), true
}

// crashSummary shows where a dead shard's log starts to matter: the first fatal error / panic line and what
// follows it (the tail of such a log is only the runtime's idle goroutines).
func crashSummary(log string) string {
	lines := strings.Split(log, "\n")
	for k, l := range lines {
		if strings.HasPrefix(l, "fatal error") || strings.HasPrefix(l, "panic:") || strings.HasPrefix(l, "runtime:") || strings.Contains(l, "signal: killed") {
			end := k + 45
			if end > len(lines) {
				end = len(lines)
			}
			return strings.Join(lines[k:end], "\n")
		}
	}
	return tail(log, 25)
}

func clip(s string, n int) string {
	if len(s) <= n {
		return s
	}
	return s[:n/2] + "\n...\n" + s[len(s)-n/2:]
}
