module verif

go 1.23

require (
	github.com/ichiban/prolog v0.0.0
	pgregory.net/rapid v1.3.0
)

replace github.com/ichiban/prolog => /repo
